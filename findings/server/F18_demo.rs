// F18 demo: a leader counts a follower as holding index N although the follower's prefix differs
// (append_request has no prev-index/prev-term check; commit() trusts `Ok`), so two nodes COMMIT
// DIFFERENT entries at the same index.
//
// WHERE TO PLACE
//   Paste into agdb_server/src/raft.rs, inside `mod test { ... }`. Needs the helpers
//   `f_deliver`, `f_past`, `f_to` from F17_demo.rs (paste those once).
//
// HOW TO RUN
//   CARGO_NET_OFFLINE=true cargo test --offline -p agdb_server --bin agdb_server raft::test::f18_ -- --nocapture
//
// Two variants:
//   f18_manual_*  : not started, hand-delivered messages - fully deterministic
//   f18_harness_* : the stock harness (start/block/unblock/append), same as the existing test
//                   `drop_uncommited_value` plus ONE more append right after `unblock()`.

    async fn f_dump(c: &TestCluster) -> Vec<(Vec<u8>, u64)> {
        let mut out = vec![];
        for (i, node) in c.nodes.read().await.iter().enumerate() {
            let node = node.read().await;
            let s = &node.cluster.storage;
            println!(
                "node{i}: state={:?} term={} commit={} logs(index,term,data)={:?}",
                node.cluster.state,
                node.cluster.term,
                s.commit,
                s.logs
                    .iter()
                    .map(|l| (l.index, l.term, l.data))
                    .collect::<Vec<_>>()
            );
            out.push((s.logs.iter().map(|l| l.data).collect(), s.commit));
        }
        out
    }

    #[tokio::test]
    async fn f18_manual_divergent_commit() -> anyhow::Result<()> {
        let cluster = TestCluster::new(3); // NOT started
        let n = cluster.nodes.read().await.clone();

        println!("-- node 0 becomes leader of term 1");
        let prevotes = n[0].write().await.cluster.process().expect("pre votes");
        let (_, votes) = f_deliver(&cluster, &f_to(prevotes, 1)).await;
        let (_, heartbeats) = f_deliver(&cluster, &f_to(votes, 1)).await;
        for hb in &heartbeats {
            f_deliver(&cluster, hb).await; // nodes 1,2 become Follower(0), term 1
        }

        println!("-- node 0 gets partitioned, appends A=1 at (index 1, term 1): replication requests are lost");
        let _lost = n[0]
            .write()
            .await
            .cluster
            .append(1, None)
            .await
            .map_err(|e| anyhow!(e.description))?;

        println!("-- nodes 1 and 2 time out (term_timeout 3s), node 1 wins term 2 with node 2's vote");
        for i in [1, 2] {
            n[i].write().await.cluster.local_mut().timer = f_past(Duration::from_secs(4));
            assert!(n[i].write().await.cluster.process().is_none()); // -> Election
        }
        n[1].write().await.cluster.local_mut().timer = f_past(Duration::from_secs(2));
        let prevotes = n[1].write().await.cluster.process().expect("pre votes");
        let (_, votes) = f_deliver(&cluster, &f_to(prevotes, 2)).await;
        let (_, heartbeats) = f_deliver(&cluster, &f_to(votes, 2)).await;
        f_deliver(&cluster, &f_to(heartbeats, 2)).await;
        assert!(matches!(n[1].read().await.cluster.state, ClusterState::Leader));

        println!("-- leader 1 appends B=2 at (index 1, term 2); reaches node 2 only (node 0 still unreachable) -> committed by {{1,2}}");
        let appends = n[1]
            .write()
            .await
            .cluster
            .append(2, None)
            .await
            .map_err(|e| anyhow!(e.description))?;
        let (_, heartbeats) = f_deliver(&cluster, &f_to(appends, 2)).await;
        f_deliver(&cluster, &f_to(heartbeats, 2)).await; // node 2 learns commit=1
        f_dump(&cluster).await;

        println!("-- partition heals; leader 1 appends C=3 at (index 2, term 2); Append([C]) reaches node 0");
        let appends = n[1]
            .write()
            .await
            .cluster
            .append(3, None)
            .await
            .map_err(|e| anyhow!(e.description))?;
        // node 0 holds A at index 1 (term 1), NOT B. It still accepts C on top of A and answers Ok.
        let (r, heartbeats) = f_deliver(&cluster, &f_to(appends, 0)).await;
        println!("node 0 answered {r:?}; leader now believes node0.log_index=2 and commits index 2");
        // heartbeat carrying log_commit=2: node 0's last (index, term) == (2, 2) -> validate_log OK -> commits [A, C]
        f_deliver(&cluster, &f_to(heartbeats, 0)).await;

        let state = f_dump(&cluster).await;
        let (logs0, commit0) = &state[0];
        let (logs1, commit1) = &state[1];
        assert!(*commit0 >= 1 && *commit1 >= 1);
        assert_eq!(
            logs0[0], logs1[0],
            "F18: index 1 is COMMITTED on both nodes (commit node0={commit0}, node1={commit1}) but holds different entries: node0={logs0:?} node1={logs1:?}"
        );
        Ok(())
    }

    #[tokio::test]
    async fn f18_harness_divergent_commit() -> anyhow::Result<()> {
        // identical to the stock test `drop_uncommited_value` up to `unblock()`
        let mut cluster = TestCluster::new(3);
        cluster.start().await;
        cluster.expect_leader(0).await;
        cluster.block(0).await;
        cluster.append(0, 1).await?; // A at (1, term 1) only on node 0
        cluster.expect_data(0, &[1]).await;
        cluster.expect_leader(1).await;
        cluster.append(1, 2).await?; // B at (1, term 2) on nodes 1,2 - committed
        cluster.expect_data(1, &[2]).await;
        cluster.expect_storage_synced(1, 2).await;
        cluster.unblock().await;
        cluster.append(1, 3).await?; // C at (2, term 2): reaches node 0 before the next heartbeat/reconcile
        tokio::time::sleep(Duration::from_secs(3)).await;

        let state = f_dump(&cluster).await;
        let (logs0, commit0) = &state[0];
        let (logs1, commit1) = &state[1];
        assert!(
            !(*commit0 >= 1 && *commit1 >= 1 && logs0[0] != logs1[0]),
            "F18: index 1 is COMMITTED on both nodes (commit node0={commit0}, node1={commit1}) but holds different entries: node0={logs0:?} node1={logs1:?}"
        );
        Ok(())
    }

    // Classic Raft "Figure 8": leader of term 3 commits an entry of term 1 purely by counting
    // replicas (Cluster::commit has no `entry.term == current term` condition); the entry is then
    // overwritten on a follower and a DIFFERENT entry is committed at the same index by the leader of term 4.
    // 5 nodes, not started, hand-delivered messages, deterministic.
    #[tokio::test]
    async fn f18_figure8_committed_entry_replaced() -> anyhow::Result<()> {
        let cluster = TestCluster::new(5); // NOT started
        let n = cluster.nodes.read().await.clone();
        // "no message for `secs`": move local timer into the past and let process() run once
        async fn idle(node: &TestNode, secs: u64) -> Option<Vec<Request<u8>>> {
            let mut node = node.write().await;
            node.cluster.local_mut().timer = f_past(Duration::from_secs(secs));
            node.cluster.process()
        }

        println!("-- (a) S0 wins term 1 (votes S1,S2); everybody follows");
        let prevotes = idle(&n[0], 1).await.expect("pre votes");
        let mut votes = vec![];
        for r in prevotes.iter().filter(|r| r.target == 1 || r.target == 2) {
            votes.extend(f_deliver(&cluster, r).await.1);
        }
        let mut heartbeats = vec![];
        for r in votes.iter().filter(|r| r.target == 1 || r.target == 2) {
            heartbeats = f_deliver(&cluster, r).await.1;
        }
        for r in &heartbeats {
            f_deliver(&cluster, r).await;
        }
        assert!(matches!(n[0].read().await.cluster.state, ClusterState::Leader));

        println!("-- (b) S0 appends X=1 at (1, term 1): reaches S1 only (2 of 5, not committed); S0 is cut off");
        let appends = n[0]
            .write()
            .await
            .cluster
            .append(1, None)
            .await
            .map_err(|e| anyhow!(e.description))?;
        f_deliver(&cluster, &f_to(appends, 1)).await;

        println!("-- (c) S2,S3,S4 time out; S4 wins term 2 (votes S2,S3), appends Y=2 at (1, term 2) locally, is cut off");
        for i in [2, 3, 4] {
            assert!(idle(&n[i], 4).await.is_none()); // -> Election
        }
        let prevotes = idle(&n[4], 5).await.expect("pre votes");
        let mut votes = vec![];
        for r in prevotes.iter().filter(|r| r.target == 2 || r.target == 3) {
            votes.extend(f_deliver(&cluster, r).await.1);
        }
        let mut heartbeats = vec![];
        for r in votes.iter().filter(|r| r.target == 2 || r.target == 3) {
            heartbeats = f_deliver(&cluster, r).await.1;
        }
        for r in heartbeats.iter().filter(|r| r.target == 2 || r.target == 3) {
            f_deliver(&cluster, r).await;
        }
        assert!(matches!(n[4].read().await.cluster.state, ClusterState::Leader));
        let _lost = n[4]
            .write()
            .await
            .cluster
            .append(2, None)
            .await
            .map_err(|e| anyhow!(e.description))?;
        f_dump(&cluster).await;

        println!("-- (d) S0 is back: stale heartbeat -> TermMismatch -> S0 learns term 2; S1,S2 time out; S0 wins term 3 (votes S1,S2)");
        n[0].write().await.cluster.node_mut(2).timer = f_past(Duration::from_secs(2));
        let heartbeats = n[0].write().await.cluster.process().expect("heartbeat");
        f_deliver(&cluster, &f_to(heartbeats, 2)).await; // TermMismatch
        for i in [1, 2] {
            assert!(idle(&n[i], 4).await.is_none()); // -> Election
        }
        let prevotes = idle(&n[0], 1).await.expect("pre votes");
        let mut votes = vec![];
        for r in prevotes.iter().filter(|r| r.target == 1 || r.target == 2) {
            votes.extend(f_deliver(&cluster, r).await.1);
        }
        let mut heartbeats = vec![];
        for r in votes.iter().filter(|r| r.target == 1 || r.target == 2) {
            heartbeats = f_deliver(&cluster, r).await.1;
        }
        assert!(matches!(n[0].read().await.cluster.state, ClusterState::Leader));
        assert_eq!(n[0].read().await.cluster.term, 3);

        println!("-- (e) leader S0 (term 3) replicates OLD entry X (term 1) to S2 via reconcile and commits it by counting S0,S1,S2");
        f_deliver(&cluster, &f_to(heartbeats.iter().map(f_clone).collect(), 1)).await; // Ok (S1 has X)
        let (_, reconcile) = f_deliver(&cluster, &f_to(heartbeats, 2)).await; // LogMismatch -> Append([X])
        let (_, _commit_heartbeats_lost) = f_deliver(&cluster, &f_to(reconcile, 2)).await;
        let s0_commit = n[0].read().await.cluster.storage.commit;
        let s0_committed = n[0].read().await.cluster.storage.logs[0].clone();
        println!("S0 (term 3) committed index {s0_commit}: {s0_committed:?}   <- entry of term 1; S0 crashes before anybody learns the commit index");
        f_dump(&cluster).await;
        assert_eq!(s0_commit, 1);

        println!("-- (f) S4 is back: learns term 3; S1,S2,S3 time out; S4 wins term 4 (votes S2,S3 - S2 holds X but (1,t1,commit 0) is not 'newer' than (1,t2,commit 0))");
        n[4].write().await.cluster.node_mut(2).timer = f_past(Duration::from_secs(2));
        let heartbeats = n[4].write().await.cluster.process().expect("heartbeat");
        f_deliver(&cluster, &f_to(heartbeats, 2)).await; // TermMismatch
        for i in [1, 2, 3] {
            assert!(idle(&n[i], 4).await.is_none()); // -> Election
        }
        let prevotes = idle(&n[4], 5).await.expect("pre votes");
        let mut votes = vec![];
        for r in prevotes.iter().filter(|r| r.target == 2 || r.target == 3) {
            votes.extend(f_deliver(&cluster, r).await.1);
        }
        let mut heartbeats = vec![];
        for r in votes.iter().filter(|r| r.target == 2 || r.target == 3) {
            heartbeats = f_deliver(&cluster, r).await.1;
        }
        assert!(matches!(n[4].read().await.cluster.state, ClusterState::Leader));
        assert_eq!(n[4].read().await.cluster.term, 4);

        println!("-- (g) leader S4 (term 4) overwrites X with Y on S2 (and S3) via reconcile and commits Y at index 1");
        for target in [2, 3] {
            let (_, reconcile) =
                f_deliver(&cluster, &f_to(heartbeats.iter().map(f_clone).collect(), target)).await;
            f_deliver(&cluster, &f_to(reconcile, target)).await;
        }
        let state = f_dump(&cluster).await;
        let s4_commit = state[4].1;
        assert_eq!(s4_commit, 1);
        assert_eq!(
            state[0].0[0], state[4].0[0],
            "F18/Figure 8: S0 committed {:?} at index 1 (commit={}), S4 committed {:?} at index 1 (commit={}); S2 first held X then had it replaced by Y",
            state[0].0, state[0].1, state[4].0, state[4].1
        );
        Ok(())
    }

    fn f_clone(r: &Request<u8>) -> Request<u8> {
        Request {
            hash: r.hash,
            index: r.index,
            target: r.target,
            term: r.term,
            log_index: r.log_index,
            log_term: r.log_term,
            log_commit: r.log_commit,
            data: match &r.data {
                RequestType::Append(l) => RequestType::Append(l.clone()),
                RequestType::Heartbeat => RequestType::Heartbeat,
                RequestType::PreVote => RequestType::PreVote,
                RequestType::Vote => RequestType::Vote,
            },
        }
    }
