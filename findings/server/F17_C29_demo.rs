// F17 => C29 demo: the double vote of F17 (a granted vote is remembered only in the scratch
// variable `state` and forgotten after term_timeout) leads to a LOST COMMITTED ENTRY:
// a node becomes leader although its log does not contain an entry that a leader has already
// committed (= acknowledged to the client). Leader completeness is violated on UNMODIFIED raft.rs.
//
// WHERE TO PLACE
//   Paste everything below into agdb_server/src/raft.rs, inside `mod test { ... }` (the
//   `#[cfg(test)]` module at the end of the file, e.g. right before its final closing brace).
//   Only items already imported there are used (TestCluster, TestNode, Request, Response,
//   ClusterState, Log, Instant, Duration, anyhow!). No production code is touched.
//   The cluster is NOT `start()`ed: no background tasks, every message is delivered by hand, so
//   the schedule is fully deterministic. "Waiting" for a timeout is simulated by moving the node's
//   own timer into the past (equivalent to sleeping; no other state is touched).
//
// HOW TO RUN
//   CARGO_NET_OFFLINE=true cargo test --offline -p agdb_server --bin agdb_server raft::test::c29_f17 -- --nocapture --test-threads=1
//
// Both tests FAIL on HEAD with a message starting "LEADER COMPLETENESS VIOLATED".
//
// TEST 1  c29_f17_leader_elected_after_commit_has_empty_log   (3 nodes, leader of the SAME term)
//   1. node 1 times out, pre-votes with node 2, starts election term 1, node 2 GRANTS Vote(term 1)
//      -> node 1 = Leader(term 1). Node 2 remembers the vote only as state=Voted(1) (its term stays 0).
//   2. node 1's heartbeats are lost. Node 2 hears nothing for > term_timeout: process() sets
//      state=Election, the vote is forgotten.
//   3. node 0 times out, pre-votes with node 2 (Ok), starts election term 1.
//   4. Vote(term 1) 0->2: node 2 GRANTS A SECOND VOTE IN TERM 1 (F17). The Vote/Ok response is slow
//      (still in the network).
//   5. a client write (data 7) lands on leader 1: Append(index 1, term 1) reaches node 2, node 2
//      stores it and answers Ok, leader 1 counts {1, 2} = majority and COMMITS index 1
//      (Cluster::commit -> commit_storage; this is where the client is acknowledged). The follow-up
//      heartbeat makes node 2 commit it as well.
//   6. the slow Vote/Ok of step 4 arrives at node 0: votes {0, 2} -> node 0 BECOMES Leader(term 1)
//      AFTER the commit, with an EMPTY log.  => LEADER COMPLETENESS VIOLATED
//
// TEST 2  c29_f17_higher_term_leader_has_conflicting_entry   (3 nodes, no message is delayed,
//         the later leader has a HIGHER term and passes every PreVote/Vote log check)
//   1.-4. exactly the F17_demo schedule (all responses delivered immediately): node 1 and node 0 are
//      both Leader(term 1), node 2 voted for both.
//   5. a client write (data 9) lands on leader 0: entry X=(index 1, term 1, data 9) is appended
//      locally, its Append messages are lost -> NOT committed, client not acknowledged.
//   6. a client write (data 7) lands on leader 1: entry E=(index 1, term 1, data 7), Append reaches
//      node 2 -> Ok -> leader 1 COMMITS E at index 1 (client acknowledged).
//   7. the partition heals: leader 1's heartbeat (term 1, log 1/1, commit 1) reaches node 2 (commits
//      E) and node 0: node 0 steps down to Follower(1); validate_log compares only (index, term) =
//      (1, 1) == (1, 1) -> Ok, and node 0 even commits ITS OWN entry X at index 1.
//   8. node 1 crashes. Nodes 0 and 2 time out (term_timeout). Node 0 pre-votes for term 2: node 2
//      compares (log_index, log_term, log_commit) = (1,1,1) vs (1,1,1) -> Ok; Vote(term 2) -> Ok.
//      node 0 BECOMES Leader(term 2); its log has X (data 9) at index 1 instead of the committed
//      E (data 7).  => LEADER COMPLETENESS VIOLATED

    /// target handles the request; the response is returned but NOT yet handed to the sender
    async fn c29f17_request(n: &[TestNode], req: &Request<u8>) -> Response {
        let r = n[req.target as usize].write().await.cluster.request(req).await;
        println!("  {req:?}\n      -> {r:?}");
        r
    }

    /// the sender of `req` receives the response; returns its follow-up requests
    async fn c29f17_response(n: &[TestNode], req: &Request<u8>, r: &Response) -> Vec<Request<u8>> {
        n[r.target as usize]
            .write()
            .await
            .cluster
            .response(req, r)
            .await
            .map_err(|e| anyhow!(e.description))
            .unwrap()
            .unwrap_or_default()
    }

    async fn c29f17_deliver(n: &[TestNode], req: &Request<u8>) -> (Response, Vec<Request<u8>>) {
        let r = c29f17_request(n, req).await;
        let f = c29f17_response(n, req, &r).await;
        (r, f)
    }

    fn c29f17_past(d: Duration) -> Instant {
        Instant::now().checked_sub(d).expect("uptime too short")
    }

    fn c29f17_to(reqs: &[Request<u8>], target: u64) -> &Request<u8> {
        reqs.iter()
            .find(|r| r.target == target)
            .expect("request for target")
    }

    async fn c29f17_dump(n: &[TestNode]) {
        for (i, node) in n.iter().enumerate() {
            let node = node.read().await;
            println!(
                "    node{i}: state={:?} term={} commit={} log={:?}",
                node.cluster.state,
                node.cluster.term,
                node.cluster.storage.commit,
                node.cluster
                    .storage
                    .logs
                    .iter()
                    .map(|l| (l.index, l.term, l.data))
                    .collect::<Vec<_>>()
            );
        }
    }

    /// Records what `leader` has committed so far. Asserts that it IS the Leader right now and
    /// that its commit point (what Cluster::commit -> commit_storage set) really is `index`.
    async fn c29f17_record_commit(
        n: &[TestNode],
        leader: usize,
        index: u64,
        committed: &mut Vec<(usize, Log<u8>)>,
    ) {
        let node = n[leader].read().await;
        assert!(
            matches!(node.cluster.state, ClusterState::Leader),
            "node {leader} must be Leader when it commits"
        );
        assert_eq!(node.cluster.storage.commit, index, "leader's commit point");
        assert_eq!(node.cluster.local().log_commit, index);
        let entry = node.cluster.storage.logs[(index - 1) as usize].clone();
        println!(
            "  ** COMMITTED by Leader node {leader} (term {}): {entry:?} -- client acknowledged",
            node.cluster.term
        );
        committed.push((leader, entry));
    }

    /// Called at the moment a node has become Leader: leader completeness check.
    async fn c29f17_check_new_leader(n: &[TestNode], leader: usize, committed: &[(usize, Log<u8>)]) {
        c29f17_dump(n).await;
        let node = n[leader].read().await;
        assert!(
            matches!(node.cluster.state, ClusterState::Leader),
            "node {leader} expected to have become Leader, is {:?}",
            node.cluster.state
        );
        println!(
            "  ** node {leader} BECAME Leader of term {}",
            node.cluster.term
        );
        for (by, entry) in committed {
            let local = node.cluster.storage.logs.get((entry.index - 1) as usize);
            assert!(
                local.is_some_and(|log| log.term == entry.term && log.data == entry.data),
                "LEADER COMPLETENESS VIOLATED: node {leader} became Leader of term {} but its log {:?} does not contain the entry {:?} that Leader node {by} committed earlier at index {} (it has {:?} there)",
                node.cluster.term,
                node.cluster.storage.logs,
                entry,
                entry.index,
                local
            );
        }
    }

    #[tokio::test]
    async fn c29_f17_leader_elected_after_commit_has_empty_log() -> anyhow::Result<()> {
        let cluster = TestCluster::new(3); // NOT started
        let n = cluster.nodes.read().await.clone();
        let mut committed: Vec<(usize, Log<u8>)> = Vec::new();

        println!("-- 1. node 1 times out, pre-vote + election term 1, node 2 grants its vote");
        n[1].write().await.cluster.local_mut().timer = c29f17_past(Duration::from_secs(2));
        let pre = n[1].write().await.cluster.process().expect("pre votes");
        let (_, votes) = c29f17_deliver(&n, c29f17_to(&pre, 2)).await;
        let (r, _heartbeats_lost) = c29f17_deliver(&n, c29f17_to(&votes, 2)).await;
        assert!(matches!(r.result, ResponseType::Ok));
        c29f17_check_new_leader(&n, 1, &committed).await;
        assert_eq!(n[1].read().await.cluster.term, 1);
        assert!(matches!(
            n[2].read().await.cluster.state,
            ClusterState::Voted(1)
        ));

        println!("-- 2. node 1's heartbeats are lost; node 2 hears nothing for > term_timeout");
        n[2].write().await.cluster.local_mut().timer = c29f17_past(Duration::from_secs(4));
        assert!(n[2].write().await.cluster.process().is_none());
        assert!(matches!(
            n[2].read().await.cluster.state,
            ClusterState::Election
        ));

        println!("-- 3. node 0 times out, pre-votes with node 2, starts election term 1");
        let pre = n[0].write().await.cluster.process().expect("pre votes");
        let (_, votes0) = c29f17_deliver(&n, c29f17_to(&pre, 2)).await;
        assert!(matches!(
            n[0].read().await.cluster.state,
            ClusterState::Candidate
        ));
        assert_eq!(n[0].read().await.cluster.term, 1);

        println!("-- 4. Vote(term 1) 0->2: node 2 grants a SECOND vote in term 1 (F17); the response is slow");
        let slow_vote_req = c29f17_to(&votes0, 2);
        let slow_vote_resp = c29f17_request(&n, slow_vote_req).await;
        assert!(matches!(slow_vote_resp.result, ResponseType::Ok));

        println!("-- 5. client write 7 on Leader node 1; Append reaches node 2; node 1 commits index 1");
        assert!(matches!(
            n[1].read().await.cluster.state,
            ClusterState::Leader
        ));
        let appends = n[1]
            .write()
            .await
            .cluster
            .append(7, None)
            .await
            .map_err(|e| anyhow!(e.description))?;
        assert_eq!(n[1].read().await.cluster.storage.commit, 0);
        let (r, heartbeats) = c29f17_deliver(&n, c29f17_to(&appends, 2)).await;
        assert!(matches!(r.result, ResponseType::Ok));
        c29f17_record_commit(&n, 1, 1, &mut committed).await;
        let (r, _) = c29f17_deliver(&n, c29f17_to(&heartbeats, 2)).await; // node 2 commits, too
        assert!(matches!(r.result, ResponseType::Ok));
        assert_eq!(n[2].read().await.cluster.storage.commit, 1);

        println!("-- 6. the slow Vote(term 1)/Ok of step 4 arrives at candidate node 0");
        c29f17_response(&n, slow_vote_req, &slow_vote_resp).await;
        c29f17_check_new_leader(&n, 0, &committed).await;

        Ok(())
    }

    #[tokio::test]
    async fn c29_f17_higher_term_leader_has_conflicting_entry() -> anyhow::Result<()> {
        let cluster = TestCluster::new(3); // NOT started
        let n = cluster.nodes.read().await.clone();
        let mut committed: Vec<(usize, Log<u8>)> = Vec::new();

        println!("-- 1. node 1 times out, pre-vote + election term 1, node 2 grants its vote");
        n[1].write().await.cluster.local_mut().timer = c29f17_past(Duration::from_secs(2));
        let pre = n[1].write().await.cluster.process().expect("pre votes");
        let (_, votes) = c29f17_deliver(&n, c29f17_to(&pre, 2)).await;
        let (r, _heartbeats_lost) = c29f17_deliver(&n, c29f17_to(&votes, 2)).await;
        assert!(matches!(r.result, ResponseType::Ok));
        c29f17_check_new_leader(&n, 1, &committed).await;

        println!("-- 2. node 1's heartbeats are lost; node 2 hears nothing for > term_timeout");
        n[2].write().await.cluster.local_mut().timer = c29f17_past(Duration::from_secs(4));
        assert!(n[2].write().await.cluster.process().is_none());

        println!("-- 3./4. node 0 times out, pre-vote + election term 1, node 2 grants a SECOND vote in term 1 (F17)");
        let pre = n[0].write().await.cluster.process().expect("pre votes");
        let (_, votes) = c29f17_deliver(&n, c29f17_to(&pre, 2)).await;
        let (r, _heartbeats_lost) = c29f17_deliver(&n, c29f17_to(&votes, 2)).await;
        assert!(matches!(r.result, ResponseType::Ok));
        c29f17_check_new_leader(&n, 0, &committed).await; // nothing committed yet: passes
        assert_eq!(n[0].read().await.cluster.term, 1);
        assert_eq!(n[1].read().await.cluster.term, 1);

        println!("-- 5. client write 9 on Leader node 0; its Append messages are lost (NOT committed)");
        let _appends_lost = n[0]
            .write()
            .await
            .cluster
            .append(9, None)
            .await
            .map_err(|e| anyhow!(e.description))?;
        assert_eq!(n[0].read().await.cluster.storage.commit, 0);

        println!("-- 6. client write 7 on Leader node 1; Append reaches node 2; node 1 commits index 1");
        let appends = n[1]
            .write()
            .await
            .cluster
            .append(7, None)
            .await
            .map_err(|e| anyhow!(e.description))?;
        let (r, heartbeats) = c29f17_deliver(&n, c29f17_to(&appends, 2)).await;
        assert!(matches!(r.result, ResponseType::Ok));
        c29f17_record_commit(&n, 1, 1, &mut committed).await;

        println!("-- 7. partition heals: Leader 1's heartbeat (commit 1) reaches node 2 and node 0");
        let (r, _) = c29f17_deliver(&n, c29f17_to(&heartbeats, 2)).await;
        assert!(matches!(r.result, ResponseType::Ok));
        let (r, _) = c29f17_deliver(&n, c29f17_to(&heartbeats, 0)).await;
        assert!(matches!(r.result, ResponseType::Ok)); // validate_log: (1,1) == (1,1)
        assert!(matches!(
            n[0].read().await.cluster.state,
            ClusterState::Follower(1)
        ));
        c29f17_dump(&n).await;
        println!(
            "     (node 0 stepped down and committed ITS OWN entry at index 1: commit={} data={})",
            n[0].read().await.cluster.storage.commit,
            n[0].read().await.cluster.storage.logs[0].data
        );

        println!("-- 8. node 1 crashes; nodes 0 and 2 time out; node 0 campaigns for term 2");
        for i in [0, 2] {
            n[i].write().await.cluster.local_mut().timer = c29f17_past(Duration::from_secs(4));
            assert!(n[i].write().await.cluster.process().is_none());
            assert!(matches!(
                n[i].read().await.cluster.state,
                ClusterState::Election
            ));
        }
        let pre = n[0].write().await.cluster.process().expect("pre votes term 2");
        let (r, votes) = c29f17_deliver(&n, c29f17_to(&pre, 2)).await;
        assert!(matches!(r.result, ResponseType::Ok)); // validate_log_for_vote passes
        let (r, _heartbeats) = c29f17_deliver(&n, c29f17_to(&votes, 2)).await;
        assert!(matches!(r.result, ResponseType::Ok));
        assert_eq!(n[0].read().await.cluster.term, 2);
        c29f17_check_new_leader(&n, 0, &committed).await;

        Ok(())
    }
