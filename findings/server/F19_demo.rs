// F19 demo: committed log entries are executed by one detached tokio task EACH
// (ClusterStorage::execute_log -> tokio::spawn), so entries committed together (or back to back)
// execute concurrently and complete / take effect out of log-index order.
//
// WHERE TO PLACE
//   Append this whole `mod f19_tests { ... }` to the end of agdb_server/src/cluster.rs
//   (it needs access to the private `ClusterStorage::new` / `Storage` impl).
//
// HOW TO RUN
//   CARGO_NET_OFFLINE=true cargo test --offline -p agdb_server --bin agdb_server cluster::f19_tests -- --nocapture --test-threads=1
//
// The tests use the multi-thread runtime because the real server does (`#[tokio::main]` in main.rs).
// `storage.append(..)` x N followed by ONE `storage.commit(N)` is exactly what a follower does in
// raft.rs `heartbeat_request` (commit_storage(request.log_commit)) / `append_request` with several logs,
// and what every node does at start-up (ClusterStorage::new -> logs_unexecuted -> execute_log per log).

#[cfg(test)]
mod f19_tests {
    use super::*;
    use crate::action::db_add::DbAdd;
    use crate::action::db_exec::DbExec;
    use crate::action::user_add::UserAdd;
    use crate::password;
    use agdb::QueryBuilder;
    use agdb_api::DbKind;
    use agdb_api::LogLevelFilter;
    use agdb_api::Queries;
    use agdb_api::config_impl::ConfigImpl;
    use agdb_api::config_impl::DEFAULT_LOG_BODY_LIMIT;
    use agdb_api::config_impl::DEFAULT_REQUEST_BODY_LIMIT;
    use agdb_api::config_impl::DEFAULT_TOKEN_EXPIRY_SECONDS;
    use std::path::PathBuf;
    use std::time::SystemTime;
    use std::time::UNIX_EPOCH;

    struct TestDir(PathBuf);

    impl Drop for TestDir {
        fn drop(&mut self) {
            let _ = std::fs::remove_dir_all(&self.0);
        }
    }

    fn test_config(test_name: &str) -> (Config, TestDir) {
        password::init(None);
        let directory = std::env::temp_dir().join(format!(
            "agdb_f19_{test_name}_{}_{}",
            std::process::id(),
            SystemTime::now()
                .duration_since(UNIX_EPOCH)
                .unwrap()
                .as_nanos()
        ));
        let config = Config::new(ConfigImpl {
            bind: ":::3000".to_string(),
            address: "http://localhost:3000".to_string(),
            basepath: String::new(),
            static_roots: Vec::new(),
            admin: "admin".to_string(),
            log_level: LogLevelFilter::Info,
            log_body_limit: DEFAULT_LOG_BODY_LIMIT,
            request_body_limit: DEFAULT_REQUEST_BODY_LIMIT,
            data_dir: directory.to_string_lossy().to_string(),
            pepper_path: String::new(),
            tls_certificate: String::new(),
            tls_key: String::new(),
            tls_root: String::new(),
            cluster_token: "cluster".to_string(),
            cluster_heartbeat_timeout_ms: 1000,
            cluster_term_timeout_ms: 3000,
            cluster_election_factor_ms: 1000,
            cluster: vec![],
            cluster_node_id: 0,
            start_time: 0,
            token_expiry_seconds: DEFAULT_TOKEN_EXPIRY_SECONDS,
            pepper: None,
        });
        (config, TestDir(directory))
    }

    async fn storage(
        name: &str,
    ) -> ServerResult<(
        ClusterStorage,
        ServerDb,
        TestDir,
        tokio::sync::broadcast::Sender<()>,
    )> {
        let (config, dir) = test_config(name);
        let shutdown = tokio::sync::broadcast::channel(1).0;
        let server_db = crate::server_db::new(&config, shutdown.subscribe()).await?;
        let cluster_log = crate::cluster_log::new(&config).await?;
        let db_pool = crate::db_pool::new(config.clone(), &server_db).await?;
        let storage = ClusterStorage::new(server_db.clone(), cluster_log, db_pool).await?;
        Ok((storage, server_db, dir, shutdown))
    }

    type Rx = tokio::sync::oneshot::Receiver<ServerResult<(u64, ClusterActionResult)>>;

    async fn append(
        s: &mut ClusterStorage,
        index: u64,
        action: impl Into<ClusterAction>,
    ) -> ServerResult<Rx> {
        let (tx, rx) = tokio::sync::oneshot::channel();
        s.append(
            Log {
                db_id: None,
                index,
                term: 1,
                data: action.into(),
            },
            Some(tx),
        )
        .await?;
        Ok(rx)
    }

    fn insert_nodes(count: u64) -> Queries {
        Queries(vec![
            QueryBuilder::insert().nodes().count(count).query().into(),
        ])
    }

    fn describe(r: Result<ServerResult<(u64, ClusterActionResult)>, impl std::fmt::Debug>) -> String {
        match r {
            Ok(Ok((i, _))) => format!("log {i}: Ok"),
            Ok(Err(e)) => format!("Err({} {})", e.status, e.description),
            Err(e) => format!("notifier dropped: {e:?}"),
        }
    }

    // (A) A slow entry (index 4) followed by a fast entry (index 5) committed in one batch:
    //     entry 5 is executed (and its "executed" notification is published) BEFORE entry 4 finished.
    #[tokio::test(flavor = "multi_thread", worker_threads = 4)]
    async fn f19_a_fast_entry_overtakes_slow_entry() -> ServerResult<()> {
        let (mut s, _server_db, _dir, _shutdown) = storage("a").await?;
        let mut executed = s.subscribe().await;

        // set-up, committed + awaited one by one (so these ARE sequential)
        let user = |u: &str| UserAdd {
            user: u.to_string(),
            password: vec![],
            salt: vec![],
        };
        let rx = append(&mut s, 1, user("alice")).await?;
        s.commit(1).await?;
        rx.await??;
        let rx = append(
            &mut s,
            2,
            DbAdd {
                owner: "alice".into(),
                db: "db1".into(),
                db_type: DbKind::Memory,
            },
        )
        .await?;
        s.commit(2).await?;
        rx.await??;
        let rx = append(&mut s, 3, user("warmup")).await?;
        s.commit(3).await?;
        rx.await??;
        assert_eq!(
            [
                executed.recv().await.unwrap(),
                executed.recv().await.unwrap(),
                executed.recv().await.unwrap()
            ],
            [1, 2, 3]
        );

        // the batch: 4 = slow (insert 300k nodes), 5 = fast (add a user)
        let rx4 = append(
            &mut s,
            4,
            DbExec {
                user: "alice".into(),
                owner: "alice".into(),
                db: "db1".into(),
                queries: insert_nodes(300_000),
            },
        )
        .await?;
        let rx5 = append(&mut s, 5, user("bob")).await?;
        s.commit(5).await?; // commits (and spawns) 4 then 5

        let first = executed.recv().await.unwrap();
        let second = executed.recv().await.unwrap();
        println!("execution-finished notifications arrived in order: [{first}, {second}]");
        println!("results: {} / {}", describe(rx4.await), describe(rx5.await));

        assert_eq!(
            [first, second],
            [4, 5],
            "F19: entries 4 and 5 were committed in index order but log 5 finished executing before log 4 (tasks run concurrently)"
        );
        Ok(())
    }

    // (B) Dependent entries committed in one batch: [DbAdd alice/dbN, DbExec on alice/dbN].
    //     Executed sequentially, DbExec can never fail. With one spawned task per entry DbExec races DbAdd
    //     and fails with "db not found" whenever it wins.
    #[tokio::test(flavor = "multi_thread", worker_threads = 4)]
    async fn f19_b_dependent_entries_race() -> ServerResult<()> {
        let (mut s, _server_db, _dir, _shutdown) = storage("b").await?;
        let rx = append(
            &mut s,
            1,
            UserAdd {
                user: "alice".into(),
                password: vec![],
                salt: vec![],
            },
        )
        .await?;
        s.commit(1).await?;
        rx.await??;

        const ROUNDS: u64 = 40;
        let mut failures = vec![];
        let mut index = 1;

        for round in 0..ROUNDS {
            let db = format!("db{round}");
            let rx_add = append(
                &mut s,
                index + 1,
                DbAdd {
                    owner: "alice".into(),
                    db: db.clone(),
                    db_type: DbKind::File,
                },
            )
            .await?;
            let rx_exec = append(
                &mut s,
                index + 2,
                DbExec {
                    user: "alice".into(),
                    owner: "alice".into(),
                    db: db.clone(),
                    queries: insert_nodes(1),
                },
            )
            .await?;
            index += 2;
            s.commit(index).await?;

            let add = describe(rx_add.await);
            let exec = describe(rx_exec.await);
            if add.starts_with("Err") || exec.starts_with("Err") {
                failures.push(format!(
                    "round {round}: log {} DbAdd({db}) -> {add}; log {} DbExec({db}) -> {exec}",
                    index - 1,
                    index
                ));
            }
        }

        for f in &failures {
            println!("{f}");
        }
        assert!(
            failures.is_empty(),
            "F19: {}/{ROUNDS} rounds: an entry was executed before the preceding entry it depends on, first: {}",
            failures.len(),
            failures[0]
        );
        Ok(())
    }
}
