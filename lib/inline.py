"""Virtual inlining of extracted helpers (a *view*, the facts on disk are untouched).

Many rules evaluate a path property inside one anchored function.  Moving a few statements of that function into a
private helper (`fn next_record_pos(..)`, `fn overwritten_bytes(..)`, `fn has_majority_of_votes(..)`) preserves the
behaviour but hides the statements from an intra-procedural rule.  `inlined(fa, body)` returns a copy of `body` in which
every call to an *eligible* helper is replaced by the helper's blocks (locals renumbered, parameters bound by copies,
`return` -> jump to the call's target).  Eligible = a function that looks like an extracted helper and that no rule
talks about by name:

  * same crate, plain `fn` / inherent method (not a trait impl, not async, not a closure), module-restricted visibility,
  * exactly ONE call site in the whole analysed workspace and at most MAX_BLOCKS blocks, or up to MAX_SHARED_SITES call
    sites and at most MAX_SHARED_BLOCKS blocks (a de-duplicated block); not recursive, no tail call / yield,
  * its name does not occur in the rule sources or in known_findings.json (the rules' vocabulary: a function a rule
    names stays a call, so that `call_blocks(b, [helper])` style rules keep working).

Rules that enumerate functions (`fa.find`, `callers_of`) still see the helper as a function of its own.
"""
import copy
import glob
import os
import re

from . import cfg
from .facts import Body, strip_generics

VERIF = os.path.dirname(os.path.dirname(os.path.abspath(__file__)))
MAX_BLOCKS = 150
MAX_DEPTH = 3
MAX_SHARED_SITES = 8       # a small helper shared by a few call sites (a de-duplicated block) is folded into each
MAX_SHARED_BLOCKS = 60
MAX_PUBLIC_BLOCKS = 20
_VOCAB = None


def vocabulary():
    global _VOCAB
    if _VOCAB is None:
        v = set()
        for f in glob.glob(os.path.join(VERIF, "rules", "*.py")) + [os.path.join(VERIF, "known_findings.json")]:
            try:
                v |= set(re.findall(r"[A-Za-z_][A-Za-z0-9_]*", open(f).read()))
            except OSError:
                pass
        _VOCAB = v
    return _VOCAB


def _call_sites(fa):
    cs = getattr(fa, "_inline_call_sites", None)
    if cs is None:
        cs = {}
        for b in fa.bodies.values():
            for i, t in cfg.calls(b):
                n = cfg.callee(t)
                if n:
                    cs.setdefault(strip_generics(n), []).append((b.path, i))
        fa._inline_call_sites = cs
    return cs


def eligible(fa, h, caller):
    if h is None or h is caller or h.crate != caller.crate:
        return False
    if h.root or h.parent or h.d.get("coroutine") or h.kind not in ("Fn", "AssocFn"):
        return False
    if h.d.get("impl_trait") or h.d.get("trait_default"):
        return False
    if not str(h.d.get("vis", "")).startswith("Restricted") and len(h.blocks) > MAX_PUBLIC_BLOCKS:
        return False        # a `pub` function is folded only when it is tiny (a predicate / accessor such as `fits`)
    f = fa.fns.get(h.path) or {}
    if f.get("async"):
        return False
    if len(h.blocks) > MAX_BLOCKS or (h.d.get("name") or "") in vocabulary():
        return False
    n_sites = len(_call_sites(fa).get(h.npath, []))
    if n_sites != 1 and not (2 <= n_sites <= MAX_SHARED_SITES and len(h.blocks) <= MAX_SHARED_BLOCKS):
        return False
    for blk in h.blocks:
        t = blk["term"]
        if t["k"] in ("tailcall", "yield", "asm", "coroutine_drop"):
            return False
        if t["k"] == "call" and strip_generics(cfg.callee(t) or "") == h.npath:
            return False
    return True


# ---------------------------------------------------------------- remapping

_RET = [None]      # during inline_call: the caller local that stands for the helper's return place, or None


def _pl(pl, off):
    out = [_RET[0] if (pl[0] == 0 and _RET[0] is not None) else pl[0] + off]
    for e in pl[1:]:
        if isinstance(e, str) and e.startswith("[_") and e.endswith("]") and e[2:-1].isdigit():
            out.append("[_%d]" % (int(e[2:-1]) + off))
        else:
            out.append(e)
    return out


def _op(op, off):
    if not isinstance(op, dict):
        return op
    if "cp" in op:
        return {"cp": _pl(op["cp"], off)}
    if "mv" in op:
        return {"mv": _pl(op["mv"], off)}
    return op


def _rv(r, off):
    r = dict(r)
    for k in ("o", "a", "b"):
        if k in r:
            r[k] = _op(r[k], off)
    if "ops" in r:
        r["ops"] = [_op(o, off) for o in r["ops"]]
    if "p" in r:
        r["p"] = _pl(r["p"], off)
    return r


def _bbm(x, boff):
    return None if x is None else x + boff


def _term(t, off, boff, landing):
    t = dict(t)
    k = t["k"]
    if k == "return":
        return {"k": "goto", "t": landing, "ln": t.get("ln", 0)}
    if k == "call":
        t["f"] = _op(t["f"], off)
        t["a"] = [_op(a, off) for a in t["a"]]
        t["d"] = _pl(t["d"], off)
        t["t"] = _bbm(t["t"], boff)
        t["u"] = _bbm(t.get("u"), boff)
    elif k == "switch":
        t["d"] = _op(t["d"], off)
        t["ts"] = [[v, tb + boff] for v, tb in t["ts"]]
        t["else"] = t["else"] + boff
    elif k == "drop":
        t["p"] = _pl(t["p"], off)
        t["t"] = t["t"] + boff
        t["u"] = _bbm(t.get("u"), boff)
    elif k == "assert":
        t["c"] = _op(t["c"], off)
        for kk in ("len", "idx"):
            if kk in t:
                t[kk] = _op(t[kk], off)
        t["t"] = t["t"] + boff
        t["u"] = _bbm(t.get("u"), boff)
    elif k == "goto":
        t["t"] = t["t"] + boff
    elif k == "falseedge":
        t["t"] = t["t"] + boff
        t["imag"] = t["imag"] + boff
    elif k == "falseunwind":
        t["t"] = t["t"] + boff
        t["u"] = _bbm(t.get("u"), boff)
    return t


def _split_top(s):
    out, depth, cur = [], 0, ""
    for ch in s:
        if ch in "<([":
            depth += 1
        elif ch in ">)]":
            depth -= 1
        if ch == "," and depth == 0:
            out.append(cur.strip())
            cur = ""
        else:
            cur += ch
    if cur.strip():
        out.append(cur.strip())
    return out


def _strip_ref(t):
    t = re.sub(r"'[a-z_]+ ", "", t.strip())
    while t.startswith("&"):
        t = t[1:].strip()
        if t.startswith("mut "):
            t = t[4:].strip()
    return t


def generic_bindings(fa, h, call):
    """{type parameter of helper `h`: concrete type at this call site}, read off by matching the helper's declared input
    types (`&T`) with the instantiated fn type of the call operand (`fn(&'a Vec<i64>)`); only bare parameters bind."""
    f = fa.fns.get(h.path) or {}
    c = (call.get("f") or {}).get("k") or {}
    ty = c.get("ty", "")
    m = re.search(r"fn\((.*)\)(?: -> .*)? \{", ty)
    if not m or not f.get("inputs"):
        return {}
    conc = _split_top(m.group(1))
    out = {}
    for g, k in zip(f["inputs"], conc):
        g2, k2 = _strip_ref(g), _strip_ref(k)
        if re.fullmatch(r"[A-Z][A-Za-z0-9]*", g2) and g2 != k2:
            out[g2] = k2
    return out


def _subst(obj, binds):
    """apply type-parameter bindings to every type-carrying string of a block / locals structure (deep copy)"""
    if not binds:
        return obj
    rx = re.compile(r"\b(%s)\b" % "|".join(re.escape(k) for k in binds))

    def go(x, key=None):
        if isinstance(x, dict):
            return {k: go(v, k) for k, v in x.items()}
        if isinstance(x, list):
            return [go(v, key) for v in x]
        if isinstance(x, str) and key in ("ty", "fnfull", "res", "adt"):
            return rx.sub(lambda m_: binds[m_.group(1)], x)
        return x
    return go(obj)


def inline_call(f_d, bb, h, binds=None):
    """Return a new body dict: call at block `bb` of body dict `f_d` replaced by the blocks of helper Body `h`."""
    d = dict(f_d)
    blocks = [dict(b) for b in f_d["blocks"]]
    locals_ = list(f_d["locals"])
    off = len(locals_)
    boff = len(blocks)
    call = blocks[bb]["term"]
    landing = boff + len(h.blocks)
    argc = h.d["argc"]
    # a call whose destination is a whole local: the helper writes its result straight into it (so `_0 = Err(..)` of a
    # helper called in tail position stays an `_0 = Err(..)` of the caller and is classified as an error exit)
    direct = len(call["d"]) == 1
    _RET[0] = call["d"][0] if direct else None
    h_locals = _subst(h.locals, binds)
    h_blocks = _subst(h.blocks, binds)
    for i, l in enumerate(h_locals):
        l2 = dict(l)
        if i <= argc:
            l2.pop("n", None)       # parameters / return place become plain temporaries: origin() chases through them
        locals_.append(l2)
    # bind parameters
    stmts = list(blocks[bb]["s"])
    for i, a in enumerate(call["a"]):
        if i + 1 <= argc:
            stmts.append({"l": [off + i + 1], "r": {"k": "use", "o": a}, "ln": call.get("ln", 0), "x": "inline:param"})
    blocks[bb]["s"] = stmts
    blocks[bb]["term"] = {"k": "goto", "t": boff, "ln": call.get("ln", 0), "x": "inline:%s" % h.npath}
    for hb in h_blocks:
        nb = {"s": [], "term": _term(hb["term"], off, boff, landing)}
        if hb.get("cleanup"):
            nb["cleanup"] = True
        for s in hb["s"]:
            s2 = dict(s)
            if "l" in s2:
                s2["l"] = _pl(s2["l"], off)
                s2["r"] = _rv(s2["r"], off)
            if "setdiscr" in s2:
                s2["setdiscr"] = _pl(s2["setdiscr"], off)
            nb["s"].append(s2)
        blocks.append(nb)
    # landing block: copy the helper's return value into the call's destination (nothing to copy when written directly)
    lt = {"k": "goto", "t": call["t"], "ln": call.get("ln", 0)} if call.get("t") is not None else {"k": "unreachable", "ln": call.get("ln", 0)}
    ls = [] if direct else [{"l": list(call["d"]), "r": {"k": "use", "o": {"mv": [off]}}, "ln": call.get("ln", 0), "x": "inline:return"}]
    blocks.append({"s": ls, "term": lt})
    _RET[0] = None
    d["blocks"] = blocks
    d["locals"] = locals_
    return d


def inlined(fa, body):
    """The inlined view of `body` (cached on the Facts object); `body` itself when nothing is eligible."""
    if body is None or os.environ.get("VERIF_NO_INLINE"):
        return body
    cache = getattr(fa, "_inlined_cache", None)
    if cache is None:
        cache = fa._inlined_cache = {}
        fa._inlined_from = {}
    if body.path in cache:
        return cache[body.path]
    cur = body
    helpers = []
    for _ in range(MAX_DEPTH * 8):
        done = True
        for i, t in cfg.calls(cur):
            n = cfg.callee(t)
            h = fa.body(n) if n else None
            if h is not None and eligible(fa, h, body) and len(cur.blocks) + len(h.blocks) < 1500:
                nd = inline_call(cur.d, i, h, generic_bindings(fa, h, t))
                cur = Body(nd, body.crate)
                if h.path not in helpers:
                    helpers.append(h.path)
                done = False
                break
        if done:
            break
    # closures handed to for_each / fold become explicit loops (try_for_each: see desugar_adaptor; left alone because its
    # early exit is not expressible without inventing control flow)
    for _ in range(8):
        done = True
        for i, t in cfg.calls(cur):
            decl = cfg.callee_decl(t) or ""
            if decl.endswith(("Iterator::for_each", "Iterator::fold")):
                nd = desugar_adaptor(fa, cur.d, i, cur)
                if nd is not None:
                    cb, _agg = _closure_of(fa, cur, t["a"][-1])
                    cur = Body(nd, body.crate)
                    if cb is not None and cb.path not in helpers:
                        helpers.append(cb.path)
                    done = False
                    break
        if done:
            break
    cache[body.path] = cur
    if helpers:
        fa._inlined_from[body.path] = helpers
    return cur


def inlined_into(fa):
    """helper path -> caller path for every helper that `inlined` would fold into its single caller."""
    m = getattr(fa, "_inlined_into", None)
    if m is None:
        m = {}
        for b in list(fa.bodies.values()):
            if b.crate not in ("agdb", "agdb_server", "agdb_api", "agdb_derive"):
                continue
            v = inlined(fa, b)
            for h in getattr(fa, "_inlined_from", {}).get(b.path, []):
                m[h] = b.path
        fa._inlined_into = m
    return m


def force_inline(fa, body, names, depth=3):
    """View of `body` with every call to one of `names` (normalised def paths) replaced by the callee's blocks, whether
    or not the callee is an 'extracted helper'.  For rules about a mechanism that lives in a function and its named
    helper (`apply_wal` + `apply_wal_record`): the rule is evaluated on the union, so inlining the helper by hand (or
    extracting it again) does not change the verdict."""
    cur = inlined(fa, body)
    names = {strip_generics(n) for n in names}
    for _ in range(depth * 8):
        done = True
        for i, t in cfg.calls(cur):
            n = strip_generics(cfg.callee(t) or "")
            if n in names:
                h = fa.body(n)
                if h is not None and not any(b["term"]["k"] in ("tailcall", "yield") for b in h.blocks):
                    cur = Body(inline_call(cur.d, i, h, generic_bindings(fa, h, t)), body.crate)
                    done = False
                    break
        if done:
            break
    return cur


# ---------------------------------------------------------------- iterator adaptors with a closure -> explicit loop
#
# `xs.iter().for_each(|x| body)`, `it.try_for_each(|x| body)` and `it.fold(init, |acc, x| body)` are loops.  Rules that
# look for "the loop that emits every element" / "the accumulator that sums the sizes" should not care which spelling the
# code uses, so the inlined view rewrites such a call into the loop it stands for: `loop { match it.next() { Some(x) =>
# <closure body>, None => break } }`, with the closure's captured variables replaced by what was captured.

LOOP_ADAPTORS = ("Iterator::for_each", "Iterator::try_for_each", "Iterator::fold")


def _closure_of(fa, body, op):
    pl = cfg.op_place(op)
    if not pl:
        return None, None
    r0 = cfg.origin(body, pl)[0]
    for d in cfg.defs(body).get(r0, []):
        if d[0] == "assign" and d[2]["k"] == "agg" and d[2].get("what") == "closure":
            return fa.body(d[2]["def"]), d[2]
    return None, None


def desugar_adaptor(fa, f_d, bb, body_obj):
    """New body dict with the adaptor call at `bb` replaced by an explicit loop, or None when the shape is not handled."""
    call = f_d["blocks"][bb]["term"]
    decl = cfg.callee_decl(call) or ""
    kind = next((k for k in LOOP_ADAPTORS if decl.endswith(k)), None)
    if kind is None or call.get("t") is None or len(call["d"]) != 1:
        return None
    cb, agg = _closure_of(fa, body_obj, call["a"][-1])
    if cb is None or cb.d.get("coroutine") or len(cb.blocks) > 200:
        return None
    want_args = 3 if kind.endswith("fold") else 2
    if cb.d["argc"] != want_args or len(call["a"]) != want_args:
        return None
    caps = []
    for o in agg["ops"]:
        pl = cfg.op_place(o)
        if pl is None:
            return None
        caps.append(pl)
    it_pl = cfg.op_place(call["a"][0])
    if it_pl is None or len(it_pl) != 1:
        return None
    blocks = [dict(b) for b in f_d["blocks"]]
    locals_ = list(f_d["locals"])
    ln = call.get("ln", 0)
    L_it, L_ref, L_opt, L_dis, L_acc = (len(locals_) + k for k in range(5))
    it_ty = locals_[it_pl[0]]["ty"]
    locals_ += [{"ty": it_ty}, {"ty": "&mut " + it_ty}, {"ty": "std::option::Option<_>"}, {"ty": "isize"},
                {"ty": locals_[call["d"][0]]["ty"]}]
    off = len(locals_)
    for i, l in enumerate(cb.locals):
        l2 = dict(l)
        if i <= cb.d["argc"]:
            l2.pop("n", None)
        locals_.append(l2)
    H, S, UNR, ENTRY, AFTER, EXIT = (len(blocks) + k for k in range(6))
    cboff = len(blocks) + 6

    def cpl(pl):
        """closure place -> caller place (captures substituted)"""
        if pl[0] == 1:
            rest = list(pl[1:])
            if rest and rest[0] == "*":
                rest = rest[1:]
            if not rest or not (isinstance(rest[0], str) and rest[0][:1] == "." and rest[0][1:].isdigit()):
                raise ValueError("closure environment used as a whole")
            k = int(rest[0][1:])
            if k >= len(caps):
                raise ValueError("capture index")
            return list(caps[k]) + rest[1:]
        out = [pl[0] + off]
        for e in pl[1:]:
            if isinstance(e, str) and e.startswith("[_") and e.endswith("]") and e[2:-1].isdigit():
                out.append("[_%d]" % (int(e[2:-1]) + off))
            else:
                out.append(e)
        return out

    def cop(op):
        if isinstance(op, dict) and "cp" in op:
            return {"cp": cpl(op["cp"])}
        if isinstance(op, dict) and "mv" in op:
            return {"mv": cpl(op["mv"])}
        return op

    def crv(r):
        r = dict(r)
        for k in ("o", "a", "b"):
            if k in r:
                r[k] = cop(r[k])
        if "ops" in r:
            r["ops"] = [cop(o) for o in r["ops"]]
        if "p" in r:
            r["p"] = cpl(r["p"])
        return r

    def cterm(t):
        t = dict(t)
        k = t["k"]
        if k == "return":
            return {"k": "goto", "t": AFTER, "ln": t.get("ln", ln)}
        if k == "call":
            t["f"] = cop(t["f"])
            t["a"] = [cop(a) for a in t["a"]]
            t["d"] = cpl(t["d"])
            t["t"] = None if t["t"] is None else t["t"] + cboff
            t["u"] = None if t.get("u") is None else t["u"] + cboff
        elif k == "switch":
            t["d"] = cop(t["d"])
            t["ts"] = [[v, tb + cboff] for v, tb in t["ts"]]
            t["else"] = t["else"] + cboff
        elif k == "drop":
            t["p"] = cpl(t["p"])
            t["t"] = t["t"] + cboff
            t["u"] = None if t.get("u") is None else t["u"] + cboff
        elif k == "assert":
            t["c"] = cop(t["c"])
            for kk in ("len", "idx"):
                if kk in t:
                    t[kk] = cop(t[kk])
            t["t"] = t["t"] + cboff
            t["u"] = None if t.get("u") is None else t["u"] + cboff
        elif k in ("goto", "falseunwind"):
            t["t"] = t["t"] + cboff
            if "u" in t:
                t["u"] = None if t.get("u") is None else t["u"] + cboff
        elif k == "falseedge":
            t["t"] = t["t"] + cboff
            t["imag"] = t["imag"] + cboff
        elif k in ("yield", "tailcall", "asm"):
            raise ValueError("unsupported terminator in closure")
        return t
    try:
        cblocks = []
        for hb in cb.blocks:
            nb = {"s": [], "term": cterm(hb["term"])}
            if hb.get("cleanup"):
                nb["cleanup"] = True
            for st in hb["s"]:
                s2 = dict(st)
                if "l" in s2:
                    s2["l"] = cpl(s2["l"])
                    s2["r"] = crv(s2["r"])
                if "setdiscr" in s2:
                    s2["setdiscr"] = cpl(s2["setdiscr"])
                nb["s"].append(s2)
            cblocks.append(nb)
    except ValueError:
        return None
    fold = kind.endswith("fold")
    tryf = kind.endswith("try_for_each")
    dest = list(call["d"])
    pre = list(blocks[bb]["s"]) + [{"l": [L_it], "r": {"k": "use", "o": call["a"][0]}, "ln": ln, "x": "desugar:adaptor"}]
    if fold:
        pre.append({"l": [L_acc], "r": {"k": "use", "o": call["a"][1]}, "ln": ln, "x": "desugar:adaptor"})
    blocks[bb]["s"] = pre
    blocks[bb]["term"] = {"k": "goto", "t": H, "ln": ln, "x": "desugar:%s" % kind}
    # `res` marks the call as resolved to a non-workspace function: the call graph must not fan out to every workspace
    # impl of Iterator::next (the adaptor ran on whatever iterator it was given, which the original call never exposed)
    nxt = {"k": {"ty": "fn", "fn": "std::iter::Iterator::next", "fnfull": "<%s as std::iter::Iterator>::next" % it_ty,
                 "res": "std::iter::Iterator::next"}}
    blocks.append({"s": [{"l": [L_ref], "r": {"k": "ref", "mut": True, "p": [L_it]}, "ln": ln}],
                   "term": {"k": "call", "f": nxt, "a": [{"mv": [L_ref]}], "d": [L_opt], "t": S, "u": None, "ln": ln, "x": "desugar:ForLoop"}})
    blocks.append({"s": [{"l": [L_dis], "r": {"k": "discr", "p": [L_opt], "enum": "std::option::Option",
                                              "variants": [[0, "None"], [1, "Some"]]}, "ln": ln, "x": "desugar:ForLoop"}],
                   "term": {"k": "switch", "d": {"mv": [L_dis]}, "ts": [[0, EXIT], [1, ENTRY]], "else": UNR, "ln": ln, "x": "desugar:ForLoop"}})
    blocks.append({"s": [], "term": {"k": "unreachable", "ln": ln}})
    bind = [{"l": [off + (3 if fold else 2)], "r": {"k": "use", "o": {"mv": [L_opt, "as Some", ".0"]}}, "ln": ln, "x": "desugar:adaptor"}]
    if fold:
        bind.append({"l": [off + 2], "r": {"k": "use", "o": {"mv": [L_acc]}}, "ln": ln, "x": "desugar:adaptor"})
    blocks.append({"s": bind, "term": {"k": "goto", "t": cboff, "ln": ln}})
    if fold:
        blocks.append({"s": [{"l": [L_acc], "r": {"k": "use", "o": {"mv": [off]}}, "ln": ln, "x": "desugar:adaptor"}],
                       "term": {"k": "goto", "t": H, "ln": ln}})
        blocks.append({"s": [{"l": dest, "r": {"k": "use", "o": {"mv": [L_acc]}}, "ln": ln, "x": "desugar:adaptor"}],
                       "term": {"k": "goto", "t": call["t"], "ln": ln}})
    elif tryf:
        # the closure's value decides: a residual (Err / Break / None) leaves the loop and becomes the call's result
        L_br = off            # closure return place
        blocks.append({"s": [{"l": dest, "r": {"k": "use", "o": {"cp": [L_br]}}, "ln": ln, "x": "desugar:adaptor"}],
                       "term": {"k": "goto", "t": H, "ln": ln, "x": "desugar:try_for_each(continue|break)"}})
        # AFTER both continues the loop and may leave it: model the early exit as a second successor through a switch on an
        # unknown flag is not expressible here; the result of a non-short-circuited run is written at EXIT
        vty = locals_[dest[0]]["ty"]
        okv = {"k": "agg", "what": "adt", "adt": "std::result::Result" if "Result" in vty.split("<")[0] else "std::option::Option",
               "variant": "Ok" if "Result" in vty.split("<")[0] else "Some", "fields": ["0"], "ops": [{"k": {"ty": "()", "c": "()"}}]}
        blocks.append({"s": [{"l": dest, "r": okv, "ln": ln, "x": "desugar:adaptor"}], "term": {"k": "goto", "t": call["t"], "ln": ln}})
    else:
        blocks.append({"s": [], "term": {"k": "goto", "t": H, "ln": ln}})
        blocks.append({"s": [{"l": dest, "r": {"k": "use", "o": {"k": {"ty": "()", "c": "()"}}}, "ln": ln, "x": "desugar:adaptor"}],
                       "term": {"k": "goto", "t": call["t"], "ln": ln}})
    blocks += cblocks
    d = dict(f_d)
    d["blocks"] = blocks
    d["locals"] = locals_
    return d
