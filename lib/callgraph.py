"""Whole-workspace call graph over the MIR facts.

Nodes are Body objects (keyed by generic-stripped def path).  Edges:
  * direct calls whose callee is a workspace body (resolved impl preferred),
  * unresolved trait-method calls -> every workspace impl of that trait method (class hierarchy),
    plus the trait's default body,
  * closure / coroutine construction -> the closure body (a created closure may be called).
"""
from . import cfg
from .facts import strip_generics


class CallGraph:
    def __init__(self, facts, inline_view=False):
        self.fa = facts
        self.inline_view = inline_view      # walk the inlined views: folded helpers are no nodes of their own
        self.by_n = {}
        for b in facts.bodies.values():
            self.by_n.setdefault(b.npath, b)
        # trait method decl path -> [impl bodies]
        self.impls_of = {}
        for b in facts.bodies.values():
            tr = b.d.get("impl_trait")
            nm = b.d.get("name")
            if tr and nm:
                self.impls_of.setdefault(strip_generics(tr) + "::" + nm, []).append(b)
        self._edges = {}

    def targets(self, t):
        """Workspace bodies a call terminator may invoke. Returns (list, external_name_or_None)."""
        f = t["f"].get("k") if t["k"] in ("call", "tailcall") else None
        if not f or "fn" not in f:
            return [], None
        if f.get("res"):
            n = strip_generics(f["res"])
            b = self.by_n.get(n)
            if b:
                return [b], None
            return [], n
        n = strip_generics(f["fn"])
        b = self.by_n.get(n)
        out = []
        if b:
            out.append(b)          # direct fn, or a trait default body
        impls = self.impls_of.get(n)
        if impls:
            out.extend(impls)
        if out:
            return out, None
        return [], n

    def edges(self, body):
        e = self._edges.get(body.path)
        if e is not None:
            return e
        out = []
        seen = set()
        if self.inline_view:
            from . import inline
            body = inline.inlined(self.fa, body)
        for i, blk in enumerate(body.blocks):
            if blk.get("cleanup"):
                continue
            t = blk["term"]
            if t["k"] in ("call", "tailcall"):
                for tb in self.targets(t)[0]:
                    if tb.path not in seen:
                        seen.add(tb.path)
                        out.append((i, tb))
            for s in blk["s"]:
                r = s.get("r")
                if r and r["k"] == "agg" and r.get("what") in ("closure", "coroutine", "coroutine_closure"):
                    cb = self.by_n.get(strip_generics(r["def"])) or self.fa.bodies.get(r["def"])
                    if cb and cb.path not in seen:
                        seen.add(cb.path)
                        out.append((i, cb))
        self._edges[body.path] = out
        return out

    def closure(self, roots, stop=None):
        """Bodies reachable from roots. Returns dict path -> (Body, parent_path, call_bb)."""
        seen = {}
        stack = []
        for r in roots:
            if r is not None and r.path not in seen:
                seen[r.path] = (r, None, None)
                stack.append(r)
        while stack:
            b = stack.pop()
            if stop and stop(b):
                continue
            for i, tb in self.edges(b):
                if tb.path not in seen:
                    seen[tb.path] = (tb, b.path, i)
                    stack.append(tb)
        return seen

    def chain(self, seen, path):
        out = []
        cur = path
        while cur is not None:
            b, parent, bb = seen[cur]
            out.append(b.npath)
            cur = parent
        return list(reversed(out))

    def reaches(self, root, pred, stop=None):
        """First body satisfying pred reachable from root, with the call chain; else None."""
        seen = self.closure([root], stop=stop)
        for p, (b, parent, bb) in seen.items():
            if pred(b):
                return b, self.chain(seen, p)
        return None

    def calls_external(self, body, names):
        """Blocks in body calling an external (non-workspace) fn whose declared name is in names."""
        out = []
        for i, t in cfg.calls(body):
            d = cfg.callee_decl(t)
            if d in names:
                out.append(i)
        return out
