"""E4: seeded-variant self-test (thorough tier). Filled in by selftest/ patches."""
import glob
import json
import os
import shutil
import subprocess
import tempfile

VERIF = os.path.dirname(os.path.dirname(os.path.abspath(__file__)))
NEUTRAL_CAP = 8


def _pname(patch):
    return os.path.basename(patch) if not patch.endswith("patch.diff") else "seeded/" + os.path.basename(os.path.dirname(patch))


def run(ctx, pid):
    """For every selftest/<pid>_*.patch: copy the workspace to a scratch dir, apply, re-extract,
    re-run the rules of <pid> and require that the expected instance is reported."""
    patches = sorted(glob.glob(os.path.join(VERIF, "selftest", pid + "_*.patch")))
    # confirmed seeded changes from the independent sub-agents that this property's rules are expected to report:
    # seeded/<dir>/meta.json carries {"expect": {"<pid>": "<substring of the violation key>"}}
    seeded_expect = {}
    for mp in sorted(glob.glob(os.path.join(VERIF, "seeded", "*", "meta.json"))):
        try:
            m = json.load(open(mp))
        except ValueError:
            continue
        want = (m.get("expect") or {}).get(pid)
        pd = os.path.join(os.path.dirname(mp), "patch.diff")
        if want and os.path.exists(pd) and (m.get("confirmed") or {}).get("valid_seeded_change", True):
            patches.append(pd)
            seeded_expect[pd] = want
    neutral = []
    for mp in sorted(glob.glob(os.path.join(VERIF, "neutral", "*", "meta.json"))):
        try:
            m = json.load(open(mp))
        except ValueError:
            continue
        pd = os.path.join(os.path.dirname(mp), "patch.diff")
        if pid in (m.get("quiet") or []) and os.path.exists(pd):
            neutral.append(pd)
    neutral = neutral[:NEUTRAL_CAP]          # bounded cost per property; tools/replay_neutral.py runs the full matrix
    if not patches and not neutral:
        ctx.selftests.append({"status": "no seeded variants registered for this property"})
        return
    import importlib
    from lib import facts as F
    from lib.report import Ctx
    mod = importlib.import_module("rules." + pid)
    for patch in patches + neutral:
        is_neutral = patch in neutral
        meta_p = patch[:-6] + ".json"
        meta = json.load(open(meta_p)) if os.path.exists(meta_p) else {}
        if patch in seeded_expect:
            meta = {"expect_key_contains": seeded_expect[patch]}
        scratch = tempfile.mkdtemp(prefix="agdb_selftest_")
        try:
            for m in F.MEMBERS + ["Cargo.toml", "Cargo.lock", "agdb_benchmark", "agdb_ci", "examples"]:
                src = os.path.join(ctx.repo, m)
                dst = os.path.join(scratch, m)
                if os.path.isdir(src):
                    shutil.copytree(src, dst, ignore=shutil.ignore_patterns("target", "node_modules"))
                elif os.path.exists(src):
                    shutil.copy(src, dst)
            r = subprocess.run(["patch", "-p1", "--no-backup-if-mismatch", "-i", patch], cwd=scratch,
                               stdout=subprocess.PIPE, stderr=subprocess.STDOUT, text=True)
            if r.returncode != 0:
                ctx.selftests.append({"patch": _pname(patch), "status": "selftest skipped: patch does not "
                                      "apply to the current tree"})
                continue
            try:
                fdir, _ = F.ensure_facts(scratch, verbose=False)
            except F.MachineryError as e:
                ctx.selftests.append({"patch": _pname(patch), "status": "selftest skipped: variant does "
                                      "not compile: " + str(e)[-200:]})
                continue
            c2 = Ctx(pid, "quick", F.Facts(fdir))
            c2.repo = scratch
            mod.run(c2)
            bad = [o for o in c2.obligations if not o["ok"]]
            if is_neutral:
                # behaviour-preserving refactoring: the rules must report nothing that they do not report on the tree itself
                base = {o["key"] for o in ctx.obligations if not o["ok"]}
                new = [o for o in bad if o["key"] not in base]
                name = "neutral/" + os.path.basename(os.path.dirname(patch))
                ctx.selftests.append({"patch": name, "expect": "quiet", "status": "quiet" if not new else "FALSE ALARM",
                                      "reported": [o["key"] for o in new][:5]})
                ctx.ob("E4", "selftest:" + name, not new,
                       "behaviour-preserving refactoring: nothing new reported" if not new else
                       "the rules of %s report %s on the behaviour-preserving refactoring `%s` (false alarm: checker regression)" % (
                           pid, [o["key"] for o in new][:3], name))
                subprocess.run(["rm", "-rf", fdir])
                continue
            want = meta.get("expect_key_contains", "")
            wants = [w for w in want.split("||") if w] or [""]
            hit = [o for o in bad if any(w in o["key"] or w in o["instance"] for w in wants)]
            ctx.selftests.append({"patch": _pname(patch), "expect": want,
                                  "status": "fired" if hit else "MISSED", "reported": [o["key"] for o in bad][:5]})
            ctx.ob("E4", "selftest:" + _pname(patch), bool(hit),
                   "seeded variant detected: %s" % hit[0]["key"] if hit else
                   "seeded variant `%s` was NOT detected by the rules of %s (checker regression)" % (
                       _pname(patch), pid))
            subprocess.run(["rm", "-rf", fdir])
        finally:
            shutil.rmtree(scratch, ignore_errors=True)
