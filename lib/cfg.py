"""CFG utilities over the MIR facts: successors, dominators, reachability with cuts,
loops (SCCs), value-flow closure, guard-edge discovery."""
from .facts import strip_generics

# ---------------------------------------------------------------- terminators


def term(body, bb):
    return body.blocks[bb]["term"]


def succs(body, bb, unwind=False, imaginary=False):
    t = body.blocks[bb]["term"]
    k = t["k"]
    out = []
    if k == "goto":
        out = [t["t"]]
    elif k == "switch":
        out = [x[1] for x in t["ts"]] + [t["else"]]
    elif k in ("drop", "assert", "falseunwind"):
        out = [t["t"]]
    elif k == "call":
        if t["t"] is not None:
            out = [t["t"]]
    elif k == "yield":
        out = [t["t"]]
    elif k == "falseedge":
        out = [t["t"]]
        if imaginary:
            out.append(t["imag"])
    if unwind and t.get("u") is not None:
        out.append(t["u"])
    # dedupe, keep order
    seen = set()
    res = []
    for x in out:
        if x not in seen:
            seen.add(x)
            res.append(x)
    return res


def all_succ(body):
    if body._succ is None:
        body._succ = [succs(body, i) for i in range(len(body.blocks))]
    return body._succ


def all_pred(body):
    if body._pred is None:
        p = [[] for _ in body.blocks]
        for i, ss in enumerate(all_succ(body)):
            for s in ss:
                p[s].append(i)
        body._pred = p
    return body._pred


# ---------------------------------------------------------------- variant-/boolean-sensitive reachability
#
# Path-insensitive reachability reports paths that no execution takes: `let r = helper(); r?` where the helper's
# failing branch built `Err(..)` continues, in the CFG, on the Ok edge of the `?` as well; `let f = a || b; if f {..}`
# takes the else branch after `f = true`.  The searches below therefore walk (block, facts) states, where the facts
# are what is known about *whole locals that are later tested*: the enum variant last assigned (`Ok`, `Err`, `Some`,
# `Break`, ...) or a constant integer / boolean.  A switch whose operand is known follows only the feasible edge.
# Unknown values are explored both ways, so the result over-approximates the feasible paths; `VERIF_INSENSITIVE=1` or
# a state-count blow-up falls back to the plain CFG search.

import os as _os

_SENS_CACHE = {}
_MAX_STATES = 60000


def _sens_info(body):
    c = _SENS_CACHE.get(id(body))
    if c is not None and c[0] is body:
        return c[1]
    tested = set()          # locals whose value decides a branch
    mutref = set()          # locals whose address is taken mutably: never tracked
    copies = {}             # local -> locals it is copied / negated / discriminated from
    for blk in body.blocks:
        for st in blk["s"]:
            if "l" not in st:
                if "setdiscr" in st:
                    mutref.add(st["setdiscr"][0])
                continue
            r = st["r"]
            if r["k"] == "ref" and r.get("mut"):
                mutref.add(r["p"][0])
            if r["k"] == "rawptr":
                mutref.add(r["p"][0])
            if len(st["l"]) == 1:
                srcs = []
                if r["k"] in ("use", "cast"):
                    pl = op_place(r["o"])
                    if pl and len(pl) == 1:
                        srcs.append(pl[0])
                elif r["k"] == "un":
                    pl = op_place(r["a"])
                    if pl and len(pl) == 1:
                        srcs.append(pl[0])
                elif r["k"] == "discr" and len(r["p"]) == 1:
                    srcs.append(r["p"][0])
                elif r["k"] == "bin":
                    for o in (r["a"], r["b"]):
                        pl = op_place(o)
                        if pl and len(pl) == 1:
                            srcs.append(pl[0])
                if srcs:
                    copies.setdefault(st["l"][0], set()).update(srcs)
        t = blk["term"]
        if t["k"] == "switch":
            pl = op_place(t["d"])
            if pl and len(pl) == 1:
                tested.add(pl[0])
        elif t["k"] == "call" and t["a"]:
            n = callee(t) or ""
            if n.endswith(("Try>::branch", "Try::branch")) and len(t["d"]) == 1:
                pl = op_place(t["a"][0])
                if pl and len(pl) == 1:
                    copies.setdefault(t["d"][0], set()).add(pl[0])
    work = list(tested)
    while work:
        x = work.pop()
        for y in copies.get(x, ()):
            if y not in tested:
                tested.add(y)
                work.append(y)
    info = (tested - mutref, mutref)
    _SENS_CACHE[id(body)] = (body, info)
    return info


def _sens_step(body, bb, env, tracked):
    """(successors, env after the block) for state (bb, env); env: dict local -> variant name | ('i', int)."""
    blk = body.blocks[bb]
    env = dict(env)
    for st in blk["s"]:
        if "l" not in st:
            continue
        l = st["l"]
        if len(l) != 1:
            continue
        d = l[0]
        if d not in tracked:
            continue
        r = st["r"]
        v = None
        k = r["k"]
        if k in ("use", "cast"):
            c = op_const(r["o"])
            if c is not None:
                if "v" in c:
                    v = ("i", c["v"])
            else:
                pl = op_place(r["o"])
                if pl and len(pl) == 1:
                    v = env.get(pl[0])
        elif k == "agg" and r.get("what") == "adt":
            v = r.get("variant")
        elif k == "un" and r["op"] == "Not":
            pl = op_place(r["a"])
            x = env.get(pl[0]) if pl and len(pl) == 1 else None
            if isinstance(x, tuple) and body.local_ty(d) == "bool":
                v = ("i", 0 if x[1] else 1)
        elif k == "discr" and len(r["p"]) == 1:
            x = env.get(r["p"][0])
            if isinstance(x, str):
                for val, name in r.get("variants", []):
                    if name == x:
                        v = ("i", val)
        elif k == "bin" and r["op"] in ("Eq", "Ne"):
            xs = []
            for o in (r["a"], r["b"]):
                c = op_const(o)
                if c is not None and "v" in c:
                    xs.append(c["v"])
                else:
                    pl = op_place(o)
                    x = env.get(pl[0]) if pl and len(pl) == 1 else None
                    xs.append(x[1] if isinstance(x, tuple) else None)
            if xs[0] is not None and xs[1] is not None:
                v = ("i", int((xs[0] == xs[1]) == (r["op"] == "Eq")))
        if v is None:
            env.pop(d, None)
        else:
            env[d] = v
    t = blk["term"]
    k = t["k"]
    if k == "call":
        d = t["d"][0] if len(t["d"]) == 1 else None
        if d is not None:
            v = None
            if d in tracked and t["a"]:
                n = callee(t) or ""
                pl = op_place(t["a"][0])
                x = env.get(pl[0]) if pl and len(pl) == 1 else None
                if n.endswith(("Try>::branch", "Try::branch")):
                    if x in ("Ok", "Some"):
                        v = "Continue"
                    elif x in ("Err", "None"):
                        v = "Break"
                elif n.endswith("from_residual"):
                    ty = body.local_ty(d)
                    v = "Err" if "result::Result" in ty.split("<")[0] else ("None" if "option::Option" in ty.split("<")[0] else None)
                elif n.endswith("from_output"):
                    ty = body.local_ty(d)
                    v = "Ok" if "result::Result" in ty.split("<")[0] else ("Some" if "option::Option" in ty.split("<")[0] else None)
            if v is None:
                env.pop(d, None)
            else:
                env[d] = v
        return succs(body, bb), env
    if k == "switch":
        pl = op_place(t["d"])
        x = env.get(pl[0]) if pl and len(pl) == 1 else None
        if isinstance(x, tuple):
            env.pop(pl[0], None)
            for val, tb in t["ts"]:
                if val == x[1]:
                    return [tb], env
            return [t["else"]], env
        if pl and len(pl) == 1:
            env.pop(pl[0], None)
    return succs(body, bb), env


def _sens_search(body, starts, targets, removed, avoid, leave_start):
    """BFS over (block, facts). Returns (set of reached blocks, path to the first target or None); None on blow-up."""
    from collections import deque
    tracked, _ = _sens_info(body)
    q = deque()
    parent = {}
    reached = set()

    def key(bb, env):
        return (bb, tuple(sorted((a, str(b)) for a, b in env.items())))
    if leave_start:
        for s0 in starts:
            ss, env = _sens_step(body, s0, {}, tracked)
            for n in ss:
                if (s0, n) in removed or n in avoid:
                    continue
                kk = key(n, env)
                if kk not in parent:
                    parent[kk] = (None, s0)
                    q.append((n, env, kk))
    else:
        for s0 in starts:
            if s0 in avoid:
                continue
            kk = key(s0, {})
            if kk not in parent:
                parent[kk] = (None, None)
                q.append((s0, {}, kk))
    found = None
    while q:
        bb, env, kk = q.popleft()
        reached.add(bb)
        if targets is not None and bb in targets:
            found = kk
            break
        if len(parent) > _MAX_STATES:
            return None
        ss, env2 = _sens_step(body, bb, env, tracked)
        for n in ss:
            if n in avoid or (bb, n) in removed:
                continue
            k2 = key(n, env2)
            if k2 in parent:
                continue
            parent[k2] = (kk, bb)
            q.append((n, env2, k2))
    path = None
    if found is not None:
        path = [found[0]]
        cur = found
        while True:
            pk, pb = parent[cur]
            if pk is None:
                if pb is not None:
                    path.append(pb)
                break
            path.append(pk[0])
            cur = pk
        path.reverse()
    return reached, path


def _insensitive():
    return bool(_os.environ.get("VERIF_INSENSITIVE"))


def reachable(body, starts, removed_edges=(), avoid=()):
    """Blocks reachable from `starts` (inclusive) along feasible normal edges, never entering `avoid`
    blocks and never following `removed_edges` (set of (from,to)).  Returns (blocks, parent map)."""
    sc = all_succ(body)
    avoid = set(avoid)
    removed = set(removed_edges)
    feasible = None
    if not _insensitive():
        r = _sens_search(body, list(starts), None, removed, avoid, False)
        if r is not None:
            feasible = r[0]
    seen = set()
    stack = [s for s in starts if s not in avoid]
    parent = {}
    while stack:
        b = stack.pop()
        if b in seen:
            continue
        seen.add(b)
        for s in sc[b]:
            if s in avoid or (b, s) in removed or s in seen:
                continue
            if feasible is not None and s not in feasible:
                continue
            if s not in parent:
                parent[s] = b
            stack.append(s)
    if feasible is not None:
        seen &= feasible | set(starts)
    return seen, parent


def find_path(body, starts, targets, removed_edges=(), avoid=(), leave_start=False):
    """Return a list of blocks from a start to a target along a feasible path, or None.
    leave_start: begin from the successors of the start blocks (path must take >=1 edge)."""
    removed = set(removed_edges)
    targets = set(targets)
    avoid = set(avoid)
    if not targets:
        return None
    if not _insensitive():
        r = _sens_search(body, list(starts), targets, removed, avoid, leave_start)
        if r is not None:
            return r[1]
    return _find_path_insensitive(body, starts, targets, removed, avoid, leave_start)


def _find_path_insensitive(body, starts, targets, removed, avoid, leave_start):
    sc = all_succ(body)
    from collections import deque
    q = deque()
    parent = {}
    if leave_start:
        for s in starts:
            for n in sc[s]:
                if (s, n) in removed or n in avoid:
                    continue
                if n not in parent:
                    parent[n] = s
                    q.append(n)
        roots = set(starts)
    else:
        for s in starts:
            if s in avoid:
                continue
            parent[s] = None
            q.append(s)
        roots = set()
    seen = set(parent)
    while q:
        b = q.popleft()
        if b in targets:
            path = [b]
            while parent.get(path[-1]) is not None and not (path[-1] in roots and len(path) > 1):
                path.append(parent[path[-1]])
                if path[-1] in roots:
                    break
            return list(reversed(path))
        for s in sc[b]:
            if s in avoid or (b, s) in removed or s in seen:
                continue
            seen.add(s)
            parent[s] = b
            q.append(s)
    return None


def dominators(body):
    """Returns dom: list of sets (blocks dominating i), computed over normal edges from bb0."""
    n = len(body.blocks)
    sc = all_succ(body)
    reach, _ = reachable(body, [0])
    pred = all_pred(body)
    order = []
    seen = set()

    def dfs(u):
        stack = [(u, iter(sc[u]))]
        seen.add(u)
        while stack:
            node, it = stack[-1]
            adv = False
            for v in it:
                if v not in seen:
                    seen.add(v)
                    stack.append((v, iter(sc[v])))
                    adv = True
                    break
            if not adv:
                order.append(node)
                stack.pop()
    dfs(0)
    rpo = list(reversed(order))
    full = set(rpo)
    dom = {b: set(full) for b in rpo}
    dom[0] = {0}
    changed = True
    while changed:
        changed = False
        for b in rpo:
            if b == 0:
                continue
            ps = [p for p in pred[b] if p in dom]
            if not ps:
                continue
            new = set.intersection(*(dom[p] for p in ps)) | {b}
            if new != dom[b]:
                dom[b] = new
                changed = True
    return dom


def dominates(body, a, b, _cache={}):
    key = id(body)
    d = _cache.get(key)
    if d is None or d[0] is not body:
        d = (body, dominators(body))
        _cache[key] = d
    return a in d[1].get(b, set())


def return_blocks(body):
    return [i for i, b in enumerate(body.blocks) if b["term"]["k"] == "return"]


def sccs(body):
    """Tarjan SCCs over normal edges; returns list of sets with a cycle (size>1 or self-loop)."""
    sc = all_succ(body)
    n = len(body.blocks)
    index = {}
    low = {}
    onstack = set()
    st = []
    out = []
    counter = [0]
    reach, _ = reachable(body, [0])
    for root in sorted(reach):
        if root in index:
            continue
        work = [(root, 0)]
        while work:
            v, pi = work.pop()
            if pi == 0:
                index[v] = low[v] = counter[0]
                counter[0] += 1
                st.append(v)
                onstack.add(v)
            recurse = False
            ss = sc[v]
            for i in range(pi, len(ss)):
                w = ss[i]
                if w not in index:
                    work.append((v, i + 1))
                    work.append((w, 0))
                    recurse = True
                    break
                elif w in onstack:
                    low[v] = min(low[v], index[w])
            if recurse:
                continue
            if low[v] == index[v]:
                comp = set()
                while True:
                    w = st.pop()
                    onstack.discard(w)
                    comp.add(w)
                    if w == v:
                        break
                if len(comp) > 1 or v in sc[v]:
                    out.append(comp)
            if work:
                u = work[-1][0]
                low[u] = min(low[u], low[v])
    return out


# ---------------------------------------------------------------- calls


def callee(t, resolved=True):
    """Generic-stripped callee path of a call terminator (resolved impl preferred)."""
    if t["k"] not in ("call", "tailcall"):
        return None
    f = t["f"].get("k")
    if not f:
        return None
    if resolved and f.get("res"):
        return strip_generics(f["res"])
    if f.get("fn"):
        return strip_generics(f["fn"])
    return None


def callee_full(t):
    f = t["f"].get("k") if t["k"] in ("call", "tailcall") else None
    return f.get("fnfull") if f else None


def callee_decl(t):
    f = t["f"].get("k") if t["k"] in ("call", "tailcall") else None
    return strip_generics(f["fn"]) if f and f.get("fn") else None


def calls(body, pred=None):
    """[(bb, term)] for call terminators in non-cleanup blocks whose callee satisfies pred(name, term)."""
    out = []
    for i, b in enumerate(body.blocks):
        if b.get("cleanup"):
            continue
        t = b["term"]
        if t["k"] != "call":
            continue
        n = callee(t)
        if pred is None or (n is not None and pred(n, t)):
            out.append((i, t))
    return out


def call_blocks(body, names, suffix=False):
    """Blocks calling any of `names` (matching resolved or declared path; exact or ::suffix)."""
    names = list(names)

    def ok(n, t):
        cands = {n, callee_decl(t), strip_generics(callee_full(t) or "")}
        for c in cands:
            if not c:
                continue
            for w in names:
                if c == w or (suffix and (c.endswith("::" + w) or c.endswith(w))):
                    return True
        return False
    return [i for i, t in calls(body, ok)]


# ---------------------------------------------------------------- operands / places


def op_local(op):
    """Local index of an operand if it is a bare local (no projection), else None."""
    p = op.get("cp") or op.get("mv")
    if p is not None and len(p) == 1:
        return p[0]
    return None


def op_place(op):
    return op.get("cp") or op.get("mv")


def op_const(op):
    return op.get("k")


def place_str(p):
    s = "_%d" % p[0]
    for e in p[1:]:
        if e == "*":
            s = "(*%s)" % s
        elif e.startswith("."):
            s += e
        elif e.startswith("as "):
            s = "(%s %s)" % (s, e)
        else:
            s += e
    return s


def place_fields(p):
    return [e[1:] for e in p[1:] if e.startswith(".")]


def assigns(body):
    """Iterate (bb, stmt) over assignment statements in non-cleanup blocks."""
    for i, b in enumerate(body.blocks):
        if b.get("cleanup"):
            continue
        for s in b["s"]:
            if "l" in s:
                yield i, s


def rvalue_operands(r):
    k = r["k"]
    if k in ("use", "cast", "repeat"):
        return [r["o"]]
    if k == "bin":
        return [r["a"], r["b"]]
    if k == "un":
        return [r["a"]]
    if k == "agg":
        return r["ops"]
    if k in ("ref", "rawptr", "discr"):
        return [{"cp": r["p"]}]
    return []


TRANSPARENT_CALLS = (
    "std::future::IntoFuture::into_future", "core::future::IntoFuture::into_future",
    "<F as std::future::IntoFuture>::into_future",
    "std::pin::Pin::new_unchecked", "std::pin::Pin::<Ptr>::new_unchecked",
    "std::future::Future::poll", "std::ops::Try::branch",
    "<std::result::Result<T, E> as std::ops::Try>::branch",
    "<std::option::Option<T> as std::ops::Try>::branch",
    "std::ops::Deref::deref", "std::ops::DerefMut::deref_mut",
    "std::clone::Clone::clone", "std::convert::Into::into", "std::convert::From::from",
    "std::borrow::Borrow::borrow", "std::convert::AsRef::as_ref",
)


def is_transparent(name):
    if name is None:
        return False
    if name in TRANSPARENT_CALLS:
        return True
    for suf in ("::into_future", "::new_unchecked", "Future::poll", "Try>::branch", "Try::branch",
                "Deref>::deref", "DerefMut>::deref_mut", "Clone>::clone", "::as_ref", "::as_mut",
                "::get_context", "::poll"):
        if name.endswith(suf):
            return True
    return False


def derived_locals(body, seeds, through=is_transparent, extra_through=()):
    """Flow-insensitive closure of locals whose value derives from the seed locals through
    assignments (use/ref/cast/field projection/aggregate) and `through` calls.
    Returns dict local -> parity (number of boolean negations mod 2; None if mixed)."""
    par = {s: 0 for s in seeds}
    changed = True
    extra = set(extra_through)

    def upd(l, p):
        nonlocal changed
        if l not in par:
            par[l] = p
            changed = True
        elif par[l] != p and par[l] is not None:
            par[l] = None
            changed = True
    while changed:
        changed = False
        for bi, b in enumerate(body.blocks):
            for s in b["s"]:
                if "l" not in s:
                    continue
                r = s["r"]
                srcs = [op_place(o) for o in rvalue_operands(r)]
                srcs = [p for p in srcs if p]
                hit = [p[0] for p in srcs if p[0] in par]
                if not hit:
                    continue
                p = par[hit[0]]
                if r["k"] == "un" and r["op"] == "Not" and p is not None:
                    p = 1 - p
                elif r["k"] == "bin":
                    # comparison against constant false/true flips/keeps; anything else: unknown parity
                    p = None
                upd(s["l"][0], p)
            t = b["term"]
            if t["k"] == "call":
                n = callee(t)
                if through(n) or n in extra:
                    for a in t["a"]:
                        pl = op_place(a)
                        if pl and pl[0] in par:
                            upd(t["d"][0], par[pl[0]])
                            break
            elif t["k"] == "yield":
                pass
    return par


def try_edges(body, value_locals):
    """For `?` applied to a value in value_locals: list of dicts
    {branch_bb, switch_bb, ok_edge:(from,to), err_edge:(from,to)}."""
    out = []
    vl = set(value_locals)
    for i, b in enumerate(body.blocks):
        t = b["term"]
        if t["k"] != "call":
            continue
        n = callee(t) or ""
        if not (n.endswith("Try>::branch") or n.endswith("Try::branch")):
            continue
        a = op_place(t["a"][0]) if t["a"] else None
        if not a or a[0] not in vl:
            continue
        # the switch follows in the target block
        sb = t["t"]
        guard = 0
        while sb is not None and body.blocks[sb]["term"]["k"] != "switch" and guard < 4:
            ss = succs(body, sb)
            sb = ss[0] if len(ss) == 1 else None
            guard += 1
        if sb is None:
            continue
        st = body.blocks[sb]["term"]
        ok = err = None
        for v, tb in st["ts"]:
            if v == 0:
                ok = (sb, tb)
            elif v == 1:
                err = (sb, tb)
        out.append({"branch_bb": i, "switch_bb": sb, "ok_edge": ok, "err_edge": err})
    return out


def bool_switches(body, value_par):
    """Switches on a boolean local derived from the seeds: returns list of
    {switch_bb, true_edge, false_edge} expressed for the ORIGINAL value (parity applied)."""
    out = []
    for i, b in enumerate(body.blocks):
        t = b["term"]
        if t["k"] != "switch":
            continue
        pl = op_place(t["d"])
        if not pl or len(pl) != 1 or pl[0] not in value_par:
            continue
        if not body.local_ty(pl[0]) == "bool":
            continue
        par = value_par[pl[0]]
        if par is None:
            continue
        # SwitchInt on bool: ts = [[0, bb_false]], else = bb_true
        f_edge = t_edge = None
        for v, tb in t["ts"]:
            if v == 0:
                f_edge = (i, tb)
            elif v == 1:
                t_edge = (i, tb)
        if t_edge is None:
            t_edge = (i, t["else"])
        if f_edge is None:
            f_edge = (i, t["else"])
        if par == 1:
            t_edge, f_edge = f_edge, t_edge
        out.append({"switch_bb": i, "true_edge": t_edge, "false_edge": f_edge})
    return out


def ret_class_blocks(body):
    """Classify blocks that produce the return value of a Result-returning function:
    returns (ok_blocks, err_blocks, unknown_blocks)."""
    ok, err, unk = [], [], []
    for i, b in enumerate(body.blocks):
        if b.get("cleanup"):
            continue
        for s in b["s"]:
            if "l" in s and s["l"] == [0]:
                r = s["r"]
                if r["k"] == "agg" and r.get("what") == "adt" and r.get("adt", "").endswith("Result"):
                    (ok if r["variant"] == "Ok" else err).append(i)
                elif r["k"] == "agg" and r.get("what") == "adt" and r.get("adt", "").endswith("Option"):
                    (ok if r["variant"] == "Some" else err).append(i)
                else:
                    unk.append(i)
        t = b["term"]
        if t["k"] == "call" and t["d"] == [0]:
            n = callee(t) or ""
            if n.endswith("from_residual"):
                err.append(i)
            else:
                unk.append(i)
    return ok, err, unk


def block_line(body, bb):
    return body.blocks[bb]["term"].get("ln", body.line)


def path_str(body, path):
    return "->".join("bb%d@%d" % (b, block_line(body, b)) for b in path)


# ---------------------------------------------------------------- definitions / origins


def defs(body):
    """local -> list of ('assign', bb, rvalue) | ('call', bb, term)"""
    d = getattr(body, "_defs", None) if hasattr(body, "_defs") else None
    cache = _DEFS.get(id(body))
    if cache is not None and cache[0] is body:
        return cache[1]
    m = {}
    for i, b in enumerate(body.blocks):
        for s in b["s"]:
            if "l" in s and len(s["l"]) == 1:
                m.setdefault(s["l"][0], []).append(("assign", i, s["r"]))
            elif "l" in s:
                m.setdefault(s["l"][0], []).append(("partial", i, s["r"]))
        t = b["term"]
        if t["k"] == "call" and len(t["d"]) == 1:
            m.setdefault(t["d"][0], []).append(("call", i, t))
    _DEFS[id(body)] = (body, m)
    return m


_DEFS = {}


def origin(body, place, depth=0):
    """Canonical (root_local, [field names]) of a place, substituting single-definition temporaries
    that are plain copies / references / unsizing casts of another place.  Derefs are dropped."""
    root = place[0]
    fields = [e for e in place[1:] if e != "*"]
    if depth > 12:
        return root, fields
    if root <= body.d["argc"] and root != 0:
        return root, fields
    ds = [x for x in defs(body).get(root, []) if x[0] != "partial"]
    if len(ds) == 1 and ds[0][0] == "assign":
        r = ds[0][2]
        src = None
        named = body.local_name(root) is not None
        if r["k"] in ("use", "cast") and not named:
            # a *named* local initialised by copy (`let start = pos;`) is a snapshot, not an alias
            src = op_place(r["o"])
        elif r["k"] == "ref":
            src = r["p"]
        if src is not None:
            r0, f0 = origin(body, src, depth + 1)
            return r0, f0 + fields
    if len(ds) == 1 and ds[0][0] == "call":
        n = callee(ds[0][2]) or ""
        if n.endswith(("Deref>::deref", "DerefMut>::deref_mut", "Deref::deref", "DerefMut::deref_mut",
                       "::as_ref", "::as_mut", "::as_slice", "::as_str", "Borrow>::borrow")) and ds[0][2]["a"]:
            src = op_place(ds[0][2]["a"][0])
            if src is not None:
                r0, f0 = origin(body, src, depth + 1)
                return r0, f0 + fields
    return root, fields


def op_origin(body, op):
    p = op_place(op)
    if p is None:
        return None
    return origin(body, p)


def is_self_field(body, op, field):
    o = op_origin(body, op)
    return o is not None and o[0] == 1 and o[1][:1] == ["." + field]


def def_call(body, local):
    """If `local` (after copy-chasing) is the destination of exactly one call, return (bb, term)."""
    r, f = origin(body, [local])
    ds = [x for x in defs(body).get(r, []) if x[0] == "call"]
    if len(ds) == 1 and not f:
        return ds[0][1], ds[0][2]
    return None


def must_pass(body, starts, through, targets, removed_edges=()):
    """True iff every path from `starts` to `targets` passes a block in `through`.
    Returns (ok, counterexample_path)."""
    p = find_path(body, starts, targets, removed_edges=removed_edges, avoid=through)
    return (p is None), p


def _place_locals(pl):
    """root local and index locals of a place"""
    out = [pl[0]]
    for e in pl[1:]:
        if isinstance(e, str) and e.startswith("[_") and e.endswith("]") and e[2:-1].isdigit():
            out.append(int(e[2:-1]))
    return out


def backward_slice(body, seeds, skip_call=None):
    """Over-approximate backward *data* slice: the locals a seed local's value may be computed from (assignments,
    partial assignments, call destinations <- all arguments, and calls that receive a `&mut` borrow of a sliced
    local <- all their arguments).  Control dependence is not followed.
    Returns (set of locals, [(bb, call terminator)] whose result or `&mut` effect is in the slice,
    set of (param local, first projection) read by the slice)."""
    dm = defs(body)
    seen = set()
    work = list(seeds)
    calls_in = {}
    reads = set()

    def push(pl):
        nonlocal work
        work += _place_locals(pl)
        if 0 < pl[0] <= body.d["argc"]:
            reads.add((pl[0], next((e for e in pl[1:] if e != "*"), None)))
        r0, f0 = origin(body, pl)
        if 0 < r0 <= body.d["argc"]:
            reads.add((r0, f0[0] if f0 else None))
    mut_calls = []
    for i, b in enumerate(body.blocks):
        t = b["term"]
        if t["k"] == "call":
            for a in t["a"]:
                pl = op_place(a)
                if pl and (body.local_ty(pl[0]) or "").lstrip("(").startswith(("&mut", "std::pin::Pin<&mut", "*mut")):
                    mut_calls.append((i, t))
                    break
    while work:
        l = work.pop()
        if l in seen:
            continue
        seen.add(l)
        for d in dm.get(l, []):
            if d[0] in ("assign", "partial"):
                for o in rvalue_operands(d[2]):
                    pl = op_place(o)
                    if pl:
                        push(pl)
            elif d[0] == "call":
                if skip_call and skip_call(callee(d[2]) or ""):
                    continue
                calls_in[d[1]] = d[2]
                for a in d[2]["a"]:
                    pl = op_place(a)
                    if pl:
                        push(pl)
        for i, t in mut_calls:
            if i in calls_in:
                continue
            roots = set()       # locals this call may write through a `&mut` argument
            for a in t["a"]:
                pl = op_place(a)
                if pl and (body.local_ty(pl[0]) or "").lstrip("(").startswith(("&mut", "std::pin::Pin<&mut", "*mut")):
                    roots.add(origin(body, pl)[0])
                    roots.add(pl[0])
            if l in roots:
                calls_in[i] = t
                for a in t["a"]:
                    pl = op_place(a)
                    if pl:
                        push(pl)
                        work.append(origin(body, pl)[0])
    return seen, sorted(calls_in.items()), reads


def result_edges(body, value_locals):
    """How a Result/Option value (locals derived from `value_locals`) is inspected: for every test of it returns
    dict(bb, ok_edge, err_edge).  Recognised idioms: `.is_ok()` / `.is_err()` / `.is_some()` / `.is_none()` followed by
    a boolean switch, and a `match` / `if let` on the value (discriminant switch with variants Ok/Err or Some/None)."""
    der = derived_locals(body, list(value_locals))
    out = []
    for i, t in calls(body):
        n = callee(t) or ""
        pos = n.endswith(("::is_ok", "::is_some"))
        neg = n.endswith(("::is_err", "::is_none"))
        if not (pos or neg) or not t["a"]:
            continue
        pl = op_place(t["a"][0])
        if not pl or pl[0] not in der:
            continue
        for sw in bool_switches(body, derived_locals(body, [t["d"][0]])):
            out.append({"bb": sw.get("bb", i), "ok_edge": sw["true_edge"] if pos else sw["false_edge"],
                        "err_edge": sw["false_edge"] if pos else sw["true_edge"]})
    for j, blk in enumerate(body.blocks):
        tt = blk["term"]
        if blk.get("cleanup") or tt["k"] != "switch" or tt.get("x") == "desugar:QuestionMark":
            continue
        pl = op_place(tt["d"])
        ds = defs(body).get(pl[0], []) if pl else []
        if not (ds and ds[0][0] == "assign" and ds[0][2]["k"] == "discr"):
            continue
        src = ds[0][2]["p"]
        if src[0] not in der and origin(body, src)[0] not in der:
            continue
        names = dict((v, nme) for v, nme in ds[0][2].get("variants", []))
        e = {"bb": j, "ok_edge": None, "err_edge": None}
        targets = {v: tb for v, tb in tt["ts"]}
        other = tt.get("else")
        for v, nme in names.items():
            tb = targets.get(v, other)
            if tb is None:
                continue
            if nme in ("Ok", "Some"):
                e["ok_edge"] = (j, tb)
            elif nme in ("Err", "None"):
                e["err_edge"] = (j, tb)
        if e["ok_edge"] and e["err_edge"] and e["ok_edge"] != e["err_edge"]:
            out.append(e)
    return out


def bool_explore(body, starts, stop_blocks, atom_calls, max_paths=4096):
    """Path-sensitive exploration of a (loop-free) CFG region over boolean values: a tiny abstract interpreter that knows
    constants, copies, `!`, and the results of the calls in `atom_calls` (dict call-block -> atom name); every other
    boolean is a fresh atom (both values explored).  A switch on a boolean whose value is known follows only the
    feasible edge, so `let f = a || b; if f {..}` is explored like `if a || b {..}`.
    Returns [(atom assignment dict, [blocks visited in order])] for every feasible path from `starts` to a block of
    `stop_blocks` or a return; raises ValueError when the region is cyclic or too large."""
    out = []
    stop_blocks = set(stop_blocks)

    def val(env, op):
        c = op_const(op)
        if c is not None:
            return bool(c["v"]) if c.get("ty") == "bool" and "v" in c else None
        pl = op_place(op)
        if pl and len(pl) == 1:
            return env.get(pl[0])
        return None

    def run(bb, env, atoms, trail):
        if len(out) > max_paths or len(trail) > 400:
            raise ValueError("region too large")
        if bb in trail:
            raise ValueError("cyclic region")
        trail = trail + [bb]
        if bb in stop_blocks and len(trail) > 1:
            out.append((dict(atoms), trail))
            return
        blk = body.blocks[bb]
        env = dict(env)
        for s in blk["s"]:
            if "l" not in s or len(s["l"]) != 1:
                continue
            r = s["r"]
            l = s["l"][0]
            v = None
            if r["k"] in ("use", "cast"):
                v = val(env, r["o"])
            elif r["k"] == "un" and r["op"] == "Not":
                x = val(env, r["a"])
                v = None if x is None else (not x)
            if v is None:
                env.pop(l, None)
            else:
                env[l] = v
        t = blk["term"]
        if t["k"] == "return":
            out.append((dict(atoms), trail))
            return
        if t["k"] == "call" and bb in atom_calls and len(t["d"]) == 1:
            name = atom_calls[bb]
            if name in atoms:
                env[t["d"][0]] = atoms[name]
                for nx in succs(body, bb):
                    run(nx, env, atoms, trail)
            else:
                for choice in (True, False):
                    a2 = dict(atoms)
                    a2[name] = choice
                    e2 = dict(env)
                    e2[t["d"][0]] = choice
                    for nx in succs(body, bb):
                        run(nx, e2, a2, trail)
            return
        if t["k"] == "call" and len(t.get("d", [])) == 1:
            env.pop(t["d"][0], None)
        if t["k"] == "switch":
            pl = op_place(t["d"])
            known = env.get(pl[0]) if pl and len(pl) == 1 else None
            if known is not None and body.local_ty(pl[0]) == "bool":
                tgt = dict((v, tb) for v, tb in t["ts"])
                nx = tgt.get(1 if known else 0, t.get("else"))
                run(nx, env, atoms, trail)
                return
            if pl and len(pl) == 1 and body.local_ty(pl[0]) == "bool":
                # unknown boolean: a fresh atom named after its switch block
                name = "bb%d" % bb
                tgt = dict((v, tb) for v, tb in t["ts"])
                for choice in (True, False):
                    a2 = dict(atoms)
                    a2[name] = choice
                    run(tgt.get(1 if choice else 0, t.get("else")), env, a2, trail)
                return
        for nx in succs(body, bb):
            run(nx, env, atoms, trail)

    for s0 in starts:
        run(s0, {}, {}, [])
    return out


def _sccs_on(body, nodes):
    """SCCs (with a cycle) of the sub-graph induced by `nodes`."""
    sc = all_succ(body)
    nodes = set(nodes)
    index, low, onstack, st, out = {}, {}, set(), [], []
    counter = [0]
    for root in sorted(nodes):
        if root in index:
            continue
        work = [(root, 0)]
        while work:
            v, pi = work.pop()
            if pi == 0:
                index[v] = low[v] = counter[0]
                counter[0] += 1
                st.append(v)
                onstack.add(v)
            recurse = False
            ss = [w for w in sc[v] if w in nodes]
            for i in range(pi, len(ss)):
                w = ss[i]
                if w not in index:
                    work.append((v, i + 1))
                    work.append((w, 0))
                    recurse = True
                    break
                elif w in onstack:
                    low[v] = min(low[v], index[w])
            if recurse:
                continue
            if low[v] == index[v]:
                comp = set()
                while True:
                    w = st.pop()
                    onstack.discard(w)
                    comp.add(w)
                    if w == v:
                        break
                if len(comp) > 1 or v in sc[v]:
                    out.append(comp)
            if work:
                u = work[-1][0]
                low[u] = min(low[u], low[v])
    return out


def loop_nest(body):
    """Every loop of the body, outer and inner: the SCCs, and recursively the SCCs that remain inside each of them once its
    header blocks (entered from outside) are removed.  Returns a list of block sets, outer loops before their inner ones."""
    preds = all_pred(body)
    out = []

    def rec(comp, depth):
        out.append(comp)
        if depth > 4:
            return
        headers = {x for x in comp if any(p not in comp for p in preds[x])} or {min(comp)}
        for inner in sorted(_sccs_on(body, comp - headers), key=min):
            rec(inner, depth + 1)
    for c in sorted(sccs(body), key=min):
        rec(c, 0)
    return out
