"""A small abstract interpreter over the MIR facts for *decision tables*.

Some clauses of the properties are finite tables: "variant V of CountComparison x ordering of (distance, value) ->
SearchControl", "SearchControl variant x add -> path cost".  The code can spell such a table in many ways (`match
a.cmp(b)`, `if a < b`, `Continue(a >= b)`, `1 + !add as u64`, `if add {1} else {2}`), so comparing syntax is brittle.
This interpreter evaluates a function body over an ABSTRACT domain in which the inputs are opaque symbols and only

  * enum variants / tuples / structs built by the code itself,
  * boolean and small integer constants,
  * the assumed ORDER between two opaque symbols (Less / Equal / Greater, chosen by the rule, all three enumerated)

are known.  It is not an execution: no concrete input value exists, opaque symbols can only be compared (through the
assumed order), anything else that needs a value (arithmetic on a symbol, an unknown call, a loop) raises Unknown and
the rule reports "idiom not recognised".  The result is the abstract value of the return place.

Values:  ("int", n) ("bool", b) ("sym", name) ("enum", variant, [fields]) ("tuple", [items]) ("struct", {field: v})
         ("ref", value) ("unit",)
"""
from . import cfg


class Unknown(Exception):
    pass


ORD = {"L": "Less", "E": "Equal", "G": "Greater"}


def _rel(order, op):
    """truth of `a op b` when a is `order` (L/E/G) relative to b"""
    return {"Lt": order == "L", "Le": order in "LE", "Gt": order == "G", "Ge": order in "GE",
            "Eq": order == "E", "Ne": order != "E"}[op]


class Interp:
    def __init__(self, body, orders=None, call_hook=None, max_steps=4000, fa=None):
        self.fa = fa                        # facts: lets promoted constants (`&Enum::Variant`) be evaluated
        self.b = body
        self.orders = orders or {}          # (symA, symB) -> "L" | "E" | "G"
        self.hook = call_hook
        self.max_steps = max_steps

    # ---- values -----------------------------------------------------------------------------------------------
    def order(self, a, b):
        if a[0] == "int" and b[0] == "int":
            return "L" if a[1] < b[1] else ("E" if a[1] == b[1] else "G")
        if a[0] == "bool" and b[0] == "bool":
            return "L" if a[1] < b[1] else ("E" if a[1] == b[1] else "G")
        if a[0] == "sym" and b[0] == "sym":
            if a[1] == b[1]:
                return "E"
            if (a[1], b[1]) in self.orders:
                return self.orders[(a[1], b[1])]
            if (b[1], a[1]) in self.orders:
                return {"L": "G", "E": "E", "G": "L"}[self.orders[(b[1], a[1])]]
        raise Unknown("order of %s and %s is not known" % (a, b))

    def deref(self, v):
        while v[0] in ("ref", "mref"):
            v = v[1] if v[0] == "ref" else self.read(v[1], [v[2]] + list(v[3]))
        return v

    def read(self, env, place):
        if place[0] not in env:
            raise Unknown("read of unset local _%d" % place[0])
        v = env[place[0]]
        variant = None
        for e in place[1:]:
            if e == "*":
                v = self.deref(v)
            elif isinstance(e, str) and e.startswith("as "):
                v = self.deref(v)
                if v[0] != "enum":
                    raise Unknown("downcast of %s" % (v,))
                variant = e[3:]
            elif isinstance(e, str) and e.startswith("."):
                v = self.deref(v)
                f = e[1:]
                if v[0] == "sym":
                    v = ("sym", v[1] + e)          # a field of an opaque value is opaque
                    continue
                if v[0] == "enum":
                    idx = int(f) if f.isdigit() else 0
                    if idx >= len(v[2]):
                        raise Unknown("field %s of %s" % (f, v))
                    v = v[2][idx]
                elif v[0] == "tuple":
                    if not f.isdigit() or int(f) >= len(v[1]):
                        raise Unknown("field %s of tuple" % f)
                    v = v[1][int(f)]
                elif v[0] == "closure":
                    if not f.isdigit() or int(f) >= len(v[2]):
                        raise Unknown("capture %s of closure" % f)
                    v = v[2][int(f)]
                elif v[0] == "struct":
                    if f not in v[1]:
                        raise Unknown("field %s of struct" % f)
                    v = v[1][f]
                else:
                    raise Unknown("projection %s on %s" % (e, v))
            else:
                raise Unknown("projection %s" % e)
        return v

    def operand(self, env, op):
        c = cfg.op_const(op)
        if c is not None:
            ty = c.get("ty", "")
            if ty == "bool" and "v" in c:
                return ("bool", bool(c["v"]))
            if "v" in c:
                return ("int", c["v"])
            if ty == "()":
                return ("unit",)
            txt = (c.get("c") or "").replace("const ", "").strip()
            if "::" in txt and txt.split("::")[-1][:1].isupper() and txt.split("::")[-1].isidentifier() and \
                    ty.split("<")[0].endswith("::".join(txt.split("::")[-2:-1])):
                return ("enum", txt.split("::")[-1], [])        # a unit variant written as a constant
            if "promoted[" in txt and self.fa is not None:
                import re as _re
                for key in (self.b.crate + "::" + txt, self.b.crate + "::" + _re.sub(r"::<[^>]*>", "", txt)):
                    pb = self.fa.promoted.get(key)
                    if pb is not None:
                        return Interp(pb, self.orders, None, 200, self.fa).run({})
            raise Unknown("constant %s" % c.get("c"))
        pl = cfg.op_place(op)
        if pl is None:
            raise Unknown("operand %s" % op)
        return self.read(env, pl)

    def write(self, env, place, v):
        if len(place) == 1:
            env[place[0]] = v
            return
        # `*r = v` / `(*r as V).0 = v` through a unique reference, `(l as V).0 = v`, `l.n = v`
        env[place[0]] = self._set_in(env.get(place[0]), list(place[1:]), v, place)

    def _set_in(self, cur, proj, v, place):
        if not proj:
            return v
        e = proj[0]
        if cur is None:
            raise Unknown("write into unset %s" % (place,))
        if e == "*":
            if cur[0] != "mref":
                raise Unknown("write through %s" % (place,))
            self.write(cur[1], [cur[2]] + list(cur[3]) + proj[1:], v)
            return cur
        if isinstance(e, str) and e.startswith("as "):
            if cur[0] != "enum" or cur[1] != e[3:]:
                raise Unknown("write through downcast %s" % (place,))
            return self._set_in(cur, proj[1:], v, place)
        if isinstance(e, str) and e.startswith("."):
            f = e[1:]
            if cur[0] == "enum" and f.isdigit() and int(f) < len(cur[2]):
                fs = list(cur[2])
                fs[int(f)] = self._set_in(fs[int(f)], proj[1:], v, place)
                return ("enum", cur[1], fs)
            if cur[0] == "tuple" and f.isdigit() and int(f) < len(cur[1]):
                fs = list(cur[1])
                fs[int(f)] = self._set_in(fs[int(f)], proj[1:], v, place)
                return ("tuple", fs)
            if cur[0] == "struct" and f in cur[1]:
                d = dict(cur[1])
                d[f] = self._set_in(d[f], proj[1:], v, place)
                return ("struct", d)
        raise Unknown("write through projection %s" % (place,))

    # ---- statements -------------------------------------------------------------------------------------------
    def rvalue(self, env, r):
        k = r["k"]
        if k == "use":
            return self.operand(env, r["o"])
        if k == "cast":
            v = self.deref(self.operand(env, r["o"]))
            if v[0] == "bool":
                return ("int", int(v[1])) if r.get("ty", "") != "bool" else v
            return v
        if k == "ref":
            pp = r["p"]
            if r.get("mut"):
                # unique reference: writes go through to the local (or to the place an outer unique reference names)
                if len(pp) >= 2 and pp[1] == "*" and env.get(pp[0], ("",))[0] == "mref" and "*" not in pp[2:]:
                    base = env[pp[0]]
                    return ("mref", base[1], base[2], tuple(base[3]) + tuple(pp[2:]))
                if "*" not in pp[1:]:
                    return ("mref", env, pp[0], tuple(pp[1:]))
            return ("ref", self.read(env, pp))
        if k == "un":
            v = self.deref(self.operand(env, r["a"]))
            if r["op"] == "Not" and v[0] == "bool":
                return ("bool", not v[1])
            if r["op"] == "Neg" and v[0] == "int":
                return ("int", -v[1])
            raise Unknown("unary %s on %s" % (r["op"], v))
        if k == "bin":
            a, b = self.deref(self.operand(env, r["a"])), self.deref(self.operand(env, r["b"]))
            op = r["op"]
            if op in ("Lt", "Le", "Gt", "Ge", "Eq", "Ne"):
                if a[0] == "enum" and b[0] == "enum" and op in ("Eq", "Ne"):
                    return ("bool", (a[1] == b[1]) == (op == "Eq"))
                if a[0] == "sym" and b[0] == "sym" and a[1].startswith("discr:") and b[1].startswith("discr:") and op in ("Eq", "Ne"):
                    return ("bool", (a[1] == b[1]) == (op == "Eq"))
                return ("bool", _rel(self.order(a, b), op))
            base = op.replace("WithOverflow", "").replace("Unchecked", "")
            if a[0] == "int" and b[0] == "int" and base in ("Add", "Sub", "Mul"):
                n = {"Add": a[1] + b[1], "Sub": a[1] - b[1], "Mul": a[1] * b[1]}[base]
                return ("tuple", [("int", n), ("bool", False)]) if op.endswith("WithOverflow") else ("int", n)
            if a[0] == "bool" and b[0] == "bool" and base in ("BitAnd", "BitOr", "BitXor"):
                return ("bool", {"BitAnd": a[1] and b[1], "BitOr": a[1] or b[1], "BitXor": a[1] != b[1]}[base])
            raise Unknown("binary %s on %s, %s" % (op, a, b))
        if k == "agg":
            ops = [self.operand(env, o) for o in r["ops"]]
            if r.get("what") == "tuple":
                return ("tuple", ops) if ops else ("unit",)
            if r.get("what") == "adt":
                if r.get("fields") and not (r.get("variant") or "")[:1].isupper():
                    return ("struct", dict(zip(r["fields"], ops)))
                return ("enum", r.get("variant"), ops)
            if r.get("what") == "closure":
                return ("closure", r.get("def"), ops)          # captured values are fields .0 .. .n of the environment
            raise Unknown("aggregate %s" % r.get("what"))
        if k == "discr":
            v = self.deref(self.read(env, r["p"]))
            if v[0] != "enum":
                raise Unknown("discriminant of %s" % (v,))
            for val, name in r.get("variants", []):
                if name == v[1]:
                    return ("int", val)
            raise Unknown("variant %s has no discriminant entry" % v[1])
        raise Unknown("rvalue %s" % k)

    def call(self, env, t):
        n = cfg.callee(t) or ""
        d = cfg.callee_decl(t) or n
        args = t["a"]
        if self.hook is not None:
            r = self.hook(self, env, t)
            if r is not None:
                return r
        last = d.split("::")[-1]
        if d.endswith(("Ord::cmp", "PartialOrd::partial_cmp")) or (last == "cmp" and len(args) == 2):
            a, b = self.deref(self.operand(env, args[0])), self.deref(self.operand(env, args[1]))
            o = ("enum", ORD[self.order(a, b)], [])
            return ("enum", "Some", [o]) if d.endswith("partial_cmp") else o
        if d.endswith(("PartialOrd::lt", "PartialOrd::le", "PartialOrd::gt", "PartialOrd::ge", "PartialEq::eq", "PartialEq::ne")) or \
                (last in ("lt", "le", "gt", "ge", "eq", "ne") and len(args) == 2):
            a, b = self.deref(self.operand(env, args[0])), self.deref(self.operand(env, args[1]))
            if a[0] == "enum" and b[0] == "enum" and last in ("eq", "ne"):
                return ("bool", (a[1] == b[1] and a[2] == b[2]) == (last == "eq"))
            return ("bool", _rel(self.order(a, b), last.capitalize()))
        if d.endswith("Ordering::reverse"):
            a = self.deref(self.operand(env, args[0]))
            return ("enum", {"Less": "Greater", "Greater": "Less", "Equal": "Equal"}[a[1]], [])
        if d.endswith(("Ordering::is_lt", "Ordering::is_le", "Ordering::is_gt", "Ordering::is_ge", "Ordering::is_eq", "Ordering::is_ne")):
            a = self.deref(self.operand(env, args[0]))
            return ("bool", _rel({"Less": "L", "Equal": "E", "Greater": "G"}[a[1]], last[3:].capitalize()))
        if d.endswith(("Try>::branch", "Try::branch")):
            a = self.deref(self.operand(env, args[0]))
            if a[0] == "enum" and a[1] in ("Ok", "Some"):
                return ("enum", "Continue", list(a[2]))
            if a[0] == "enum" and a[1] in ("Err", "None"):
                return ("enum", "Break", [("enum", a[1], list(a[2]))])
        if d.endswith(("From::from", "Into::into", "Clone::clone", "Deref::deref")) and len(args) == 1:
            return self.deref(self.operand(env, args[0])) if d.endswith("Clone::clone") else self.operand(env, args[0])
        if last == "discriminant_value" and len(args) == 1:
            a = self.deref(self.operand(env, args[0]))
            if a[0] == "enum":
                return ("sym", "discr:%s" % a[1])       # only ever compared for equality
        if d.endswith("ops::Not::not"):
            a = self.deref(self.operand(env, args[0]))
            if a[0] == "bool":
                return ("bool", not a[1])
        raise Unknown("call to %s" % (n or d))

    # ---- driver -----------------------------------------------------------------------------------------------
    def run(self, env, start=0, stop_at=None):
        """Interpret from block `start` until `return`; returns the abstract value of _0 (with `stop_at`: the
        environment on arrival at that block)."""
        env = dict(env)
        bb = start
        first = True
        for _ in range(self.max_steps):
            if stop_at is not None and bb == stop_at and not first:
                return env
            first = False
            blk = self.b.blocks[bb]
            for st in blk["s"]:
                if "l" in st:
                    self.write(env, st["l"], self.rvalue(env, st["r"]))
                elif "setdiscr" in st:
                    raise Unknown("SetDiscriminant")
            t = blk["term"]
            k = t["k"]
            if k == "return":
                if 0 not in env:
                    return ("unit",)
                return env[0]
            if k in ("goto", "drop", "falseedge", "falseunwind"):
                bb = t["t"]
            elif k == "assert":
                c = self.deref(self.operand(env, t["c"]))
                if c[0] != "bool" or c[1] != bool(t.get("e", True)):
                    raise Unknown("assertion may fail")
                bb = t["t"]
            elif k == "switch":
                v = self.deref(self.operand(env, t["d"]))
                if v[0] == "bool":
                    n = int(v[1])
                elif v[0] == "int":
                    n = v[1]
                else:
                    raise Unknown("switch on %s" % (v,))
                bb = dict((val, tb) for val, tb in t["ts"]).get(n, t["else"])
            elif k == "call":
                v = self.call(env, t)
                if t["t"] is None:
                    raise Unknown("diverging call")
                self.write(env, t["d"], v)
                bb = t["t"]
            else:
                raise Unknown("terminator %s" % k)
        raise Unknown("step limit (loop?)")


def show(v):
    if v[0] == "enum":
        return "%s(%s)" % (v[1], ", ".join(show(x) for x in v[2])) if v[2] else v[1]
    if v[0] == "tuple":
        return "(%s)" % ", ".join(show(x) for x in v[1])
    if v[0] in ("int", "bool"):
        return str(v[1]).lower() if v[0] == "bool" else str(v[1])
    if v[0] == "ref":
        return "&" + show(v[1])
    if v[0] == "sym":
        return v[1]
    return str(v)


def call_workspace(fa, interp, env, t, hook=None, depth=0):
    """Interpret a call to a workspace function from its own body (arguments bound to its parameters)."""
    from . import cfg as _c
    n = _c.callee(t) or ""
    cb = fa.body(n)
    if cb is None or depth > 6:
        return None
    cenv = {}
    for k, a in enumerate(t["a"]):
        cenv[k + 1] = interp.operand(env, a)
    sub = Interp(cb, interp.orders, (lambda i_, e_, t_: hook(i_, e_, t_, depth + 1)) if hook else None, interp.max_steps,
                 interp.fa or fa)
    return sub.run(cenv)


def call_closure(fa, interp, clo, args, hook=None, depth=0):
    """Interpret a closure value `clo` (("closure", def, captures)) applied to `args` (abstract values)."""
    clo = interp.deref(clo)
    if clo[0] != "closure" or depth > 6:
        raise Unknown("call of %s" % (clo,))
    cb = fa.body(clo[1])
    if cb is None:
        raise Unknown("closure body %s not in the facts" % clo[1])
    cenv = {1: ("ref", clo)}
    # closure bodies take their arguments either spread (`_2, _3`) or as one tuple, depending on the ABI in MIR: spread here
    for k, a in enumerate(args):
        cenv[k + 2] = a
    sub = Interp(cb, interp.orders, (lambda i_, e_, t_: hook(i_, e_, t_, depth + 1)) if hook else None, interp.max_steps,
                 interp.fa or fa)
    return sub.run(cenv)
