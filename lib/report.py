"""Obligation bookkeeping, known findings, evidence and exit status."""
import json
import os
import time

VERIF = os.path.dirname(os.path.dirname(os.path.abspath(__file__)))
KNOWN = os.path.join(VERIF, "known_findings.json")


class Ctx:
    def __init__(self, pid, tier, facts, seed=0):
        self.pid = pid
        self.tier = tier
        self.facts = facts
        self.seed = seed
        self.obligations = []   # dicts
        self.notes = []
        self.undecided = []
        self.decided = []
        self.t0 = time.time()
        self.selftests = []
        self.configs = ["workspace-unified features, lib+bin targets, cfg(test) off"]

    # ---- recording ----------------------------------------------------
    def ob(self, rule, instance, ok, detail="", where="", key=None, nontrivial=True):
        """Record one obligation. `key` identifies a violation without line numbers."""
        if key is None:
            key = "%s|%s|%s" % (self.pid, rule, instance)
        self.obligations.append({
            "rule": rule, "instance": instance, "ok": bool(ok), "detail": detail,
            "where": where, "key": key, "nontrivial": nontrivial,
        })
        return bool(ok)

    def anchor(self, rule, path, kind="body"):
        """Look up a function by def path; a missing anchor is a violation (fail closed)."""
        b = self.facts.body(path)
        if b is not None:
            # the view with extracted single-use helpers folded back in (lib/inline.py)
            from lib import inline
            b = inline.inlined(self.facts, b)
        if b is None:
            self.ob(rule, "anchor:" + path, False,
                    "mechanism `%s` not found in the analysed workspace (renamed or removed)" % path,
                    key="%s|%s|missing-anchor|%s" % (self.pid, rule, path))
        return b

    def floor(self, rule, what, count, floor):
        self.ob(rule, "floor:" + what, count >= floor,
                "%d instances of %s found, floor %d (counted by hand when the rule was written)" % (count, what, floor),
                key="%s|%s|floor|%s" % (self.pid, rule, what), nontrivial=False)

    def note(self, s):
        self.notes.append(s)

    # ---- finishing ----------------------------------------------------
    def finish(self, explanation, decided, undecided, trusted_base=None, assumptions=None):
        known = load_known()
        kf = {f["key"]: f for f in known.get("findings", []) if f.get("property") == self.pid}
        viol = [o for o in self.obligations if not o["ok"]]
        new = [o for o in viol if o["key"] not in kf]
        listed = [o for o in viol if o["key"] in kf]
        seen_known = set()
        for o in listed:
            if o["key"] in seen_known:
                continue
            seen_known.add(o["key"])
            print("KNOWN-FINDING: property=%s %s" % (self.pid, kf[o["key"]].get("what", o["detail"])))
        evroot = os.path.join(VERIF, "evidence") if getattr(self, "repo", "/repo") == "/repo" else os.path.join(VERIF, ".cache", "evidence-alt")
        vdir = os.path.join(evroot, "violations")
        os.makedirs(vdir, exist_ok=True)
        for f in os.listdir(vdir):
            if f.startswith(self.pid + "-"):
                os.remove(os.path.join(vdir, f))
        for i, o in enumerate(new):
            p = os.path.join(vdir, "%s-%d.json" % (self.pid, i))
            with open(p, "w") as fh:
                json.dump({"property": self.pid, "rule": o["rule"], "instance": o["instance"],
                           "where": o["where"], "detail": o["detail"], "key": o["key"],
                           "facts": self.facts.dir}, fh, indent=1)
            print("%s: [%s] %s: %s" % (o["where"] or "?", o["rule"], o["instance"], o["detail"]))
            print("VIOLATION property=%s replay=%s" % (self.pid, p))
        distinct = len({(o["rule"], o["instance"]) for o in self.obligations if o["nontrivial"]})
        samples = []
        seen_rules = set()
        for o in self.obligations:
            if o["rule"] not in seen_rules and o["nontrivial"]:
                seen_rules.add(o["rule"])
                samples.append({"rule": o["rule"], "instance": o["instance"], "where": o["where"],
                                "verdict": "holds" if o["ok"] else ("known-finding" if o["key"] in kf else "VIOLATION"),
                                "detail": o["detail"][:300]})
        for o in viol[:10]:
            samples.append({"rule": o["rule"], "instance": o["instance"], "where": o["where"],
                            "verdict": "known-finding" if o["key"] in kf else "VIOLATION", "detail": o["detail"][:300]})
        rules = sorted({o["rule"] for o in self.obligations})
        ev = {
            "property_id": self.pid,
            "tier": self.tier,
            "seed": self.seed,
            "level": "other",
            "coverage": {
                "explanation": explanation,
                "decided_clauses": decided,
                "undecided_clauses": undecided,
                "evaluations": len(self.obligations),
                "distinct_nontrivial": distinct,
                "rule": "every obligation is one (rule, instance) pair enumerated from the MIR/HIR facts of /repo's current "
                        "source; non-trivial = the evaluation inspected at least one CFG path, table row or call site "
                        "(floor/anchor bookkeeping obligations are excluded)",
                "obligations": len(self.obligations),
                "discharged": len(self.obligations) - len(viol),
                "known_findings_hit": sorted(seen_known),
                "new_violations": len(new),
                "rules": rules,
                "samples": samples[:40],
                "bodies_analysed": self.facts.nbodies,
                "facts_dir": os.path.basename(self.facts.dir),
                "configurations": self.configs,
                "selftests": self.selftests,
                "checker_cmd": "./check %s --tier %s" % (self.pid, self.tier),
                "trusted_base": trusted_base or [
                    "rustc nightly 1.97 MIR (mir_promoted) / HIR for the analysed configuration",
                    "driver/ fact extractor", "lib/cfg.py", "frozen tables in rules/%s.py" % self.pid],
                "exhaustive": True,
                "notes": self.notes[:50],
            },
            "assumptions": assumptions or [
                "a passing check means the named structural necessary conditions hold on every CFG path of the "
                "analysed configuration; the undecided clauses of the property are not covered"],
            "wall_s": round(time.time() - self.t0, 3),
            "violations": len(new),
        }
        os.makedirs(evroot, exist_ok=True)
        with open(os.path.join(evroot, self.pid + ".json"), "w") as fh:
            json.dump(ev, fh, indent=1)
        print("[%s] %d obligations, %d discharged, %d known findings, %d new violations (%.1fs)" % (
            self.pid, len(self.obligations), len(self.obligations) - len(viol), len(seen_known), len(new),
            time.time() - self.t0))
        return 1 if new else 0


def load_known():
    try:
        with open(KNOWN) as fh:
            return json.load(fh)
    except FileNotFoundError:
        return {"findings": [], "fixed": []}
