"""Enumeration of panic-capable sites in MIR bodies (rules R07 / R21 / R16a)."""
from . import cfg

UNWRAPS = {
    "std::option::Option::unwrap": "unwrap", "std::option::Option::expect": "expect",
    "std::result::Result::unwrap": "unwrap", "std::result::Result::expect": "expect",
    "std::result::Result::unwrap_err": "unwrap_err", "std::result::Result::expect_err": "expect_err",
}
PANIC_FNS = ("core::panicking::", "std::rt::begin_panic", "std::rt::panic_fmt", "core::panicking::panic_fmt",
             "std::process::abort", "std::process::exit", "core::option::expect_failed", "core::result::unwrap_failed")
INDEX_DECLS = ("std::ops::Index::index", "std::ops::IndexMut::index_mut")
PANICKY_STD = {
    "core::slice::<impl [T]>::copy_from_slice": "copy_from_slice",
    "core::slice::<impl [T]>::clone_from_slice": "clone_from_slice",
    "core::slice::<impl [T]>::split_at": "split_at", "core::slice::<impl [T]>::split_at_mut": "split_at",
    "core::slice::<impl [T]>::swap": "slice_swap", "core::slice::<impl [T]>::chunks": "chunks",
    "core::slice::<impl [T]>::chunks_exact": "chunks",
    "std::vec::Vec::remove": "vec_remove", "std::vec::Vec::insert": "vec_insert",
    "std::vec::Vec::swap_remove": "vec_swap_remove", "std::vec::Vec::drain": "vec_drain",
    "std::vec::Vec::split_off": "vec_split_off",
    "std::time::Duration::new": "duration_new", "std::time::Duration::from_secs_f64": "duration_from_f64",
    "std::string::String::remove": "string_remove", "std::string::String::insert": "string_insert",
    "core::str::<impl str>::split_at": "str_split_at",
}
ALLOCS = {
    "std::vec::Vec::with_capacity": "with_capacity", "std::vec::from_elem": "from_elem",
    "std::vec::Vec::resize": "vec_resize", "std::vec::Vec::reserve": "vec_reserve",
    "std::vec::Vec::reserve_exact": "vec_reserve", "std::string::String::with_capacity": "with_capacity",
    "agdb::collections::bit_set::BitSet::with_capacity": "bitset_with_capacity",
    "std::collections::VecDeque::with_capacity": "with_capacity",
    "std::collections::HashMap::with_capacity": "with_capacity",
}
ARITH_OPS = {"std::ops::Add::add": "op_add", "std::ops::Sub::sub": "op_sub"}

# callee names in the facts are generic-stripped (`core::slice::<impl [T]>::len` -> `core::slice::len`)
from .facts import strip_generics as _sg     # noqa: E402
PANICKY_STD = {_sg(k): v for k, v in PANICKY_STD.items()}
ALLOCS = {_sg(k): v for k, v in ALLOCS.items()}


def sites(body, overflow=False):
    """Yield dicts {kind, callee, bb, line, macro} for panic-capable sites of `body` (cleanup blocks excluded)."""
    for i, blk in enumerate(body.blocks):
        if blk.get("cleanup"):
            continue
        t = blk["term"]
        k = t["k"]
        x = t.get("x")
        if k == "assert":
            ak = t["ak"]
            if ak == "BoundsCheck":
                yield {"kind": "bounds_check", "callee": "", "bb": i, "x": x}
            elif ak in ("DivisionByZero", "RemainderByZero"):
                yield {"kind": ak, "callee": "", "bb": i, "x": x}
            elif ak.startswith("Overflow") and overflow:
                yield {"kind": "overflow", "callee": ak, "bb": i, "x": x}
            continue
        if k != "call":
            continue
        n = cfg.callee(t) or ""
        d = cfg.callee_decl(t) or ""
        if d.startswith(PANIC_FNS) or n.startswith(PANIC_FNS):
            mac = (x or "").replace("macro:", "")
            if mac in ("format_args", "write", "writeln"):
                continue
            yield {"kind": "explicit_panic", "callee": mac or d.split("::")[-1], "bb": i, "x": x}
        elif d in UNWRAPS:
            yield {"kind": UNWRAPS[d], "callee": d.split("::")[-2], "bb": i, "x": x}
        elif d in INDEX_DECLS:
            full = cfg.callee_full(t) or ""
            # <Vec<u8> as Index<RangeFrom<usize>>>::index
            recv = full.split(" as std::ops::Index")[0].lstrip("<")
            idx = full.split("Index<")[-1].split(">>::")[0] if "Index<" in full else "?"
            idx = idx.split("<")[0].split("::")[-1] if idx else "?"
            if recv.startswith(("std::collections::HashMap", "std::collections::BTreeMap", "serde_json")):
                kind = "map_index"
            else:
                kind = "index"
            yield {"kind": kind, "callee": "%s[%s]" % (recv.split("<")[0].split("::")[-1], idx), "bb": i, "x": x}
        elif d in PANICKY_STD:
            yield {"kind": PANICKY_STD[d], "callee": "", "bb": i, "x": x}
        elif d in ALLOCS or n in ALLOCS:
            yield {"kind": "alloc", "callee": ALLOCS.get(d) or ALLOCS.get(n), "bb": i, "x": x}
        elif d in ARITH_OPS and ("SystemTime" in (cfg.callee_full(t) or "") or "Duration" in (cfg.callee_full(t) or "")
                                 or "Instant" in (cfg.callee_full(t) or "")):
            yield {"kind": "time_arith", "callee": ARITH_OPS[d], "bb": i, "x": x}


def site_key(fn, s):
    return "%s|%s|%s" % (fn, s["kind"], s["callee"])
