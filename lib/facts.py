"""Fact loading and freshness for the agdb static checks (E2).

Facts are produced by the rustc_private driver (driver/) through extract.sh and
cached under /verif/.cache/facts/<tree-hash>/.  The tree hash covers every file
that can influence the analysed crates, so an edited /repo is always re-extracted.
"""
import fcntl
import glob
import hashlib
import json
import os
import re
import subprocess
import sys
import time

VERIF = os.path.dirname(os.path.dirname(os.path.abspath(__file__)))
REPO = os.environ.get("AGDB_REPO", "/repo")
CACHE = os.path.join(VERIF, ".cache")
MEMBERS = ["agdb", "agdb_derive", "agdb_api", "agdb_server"]
EXPECTED_CRATES = {"agdb": "lib", "agdb_derive": "proc-macro", "agdb_api": "lib", "agdb_server": "bin"}


class MachineryError(Exception):
    pass


def tree_hash(repo=REPO):
    h = hashlib.sha256()
    files = []
    for top in MEMBERS:
        for root, dirs, fs in os.walk(os.path.join(repo, top)):
            dirs[:] = sorted(d for d in dirs if d not in ("target", "node_modules", ".git"))
            for f in sorted(fs):
                if f.endswith((".rs", ".toml", ".json", ".md")) or f in ("Cargo.lock",):
                    files.append(os.path.join(root, f))
    for f in ("Cargo.toml", "Cargo.lock"):
        files.append(os.path.join(repo, f))
    for f in files:
        try:
            with open(f, "rb") as fh:
                data = fh.read()
        except OSError:
            continue
        h.update(os.path.relpath(f, repo).encode())
        h.update(b"\0")
        h.update(hashlib.sha256(data).digest())
    # the driver itself is part of the key
    drv = os.path.join(VERIF, "driver", "src")
    for f in sorted(glob.glob(os.path.join(drv, "*.rs"))):
        with open(f, "rb") as fh:
            h.update(hashlib.sha256(fh.read()).digest())
    return h.hexdigest()[:20]


def ensure_driver():
    drv = os.path.join(VERIF, "driver", "target", "release", "agdb-facts")
    srcs = glob.glob(os.path.join(VERIF, "driver", "src", "*.rs"))
    if os.path.exists(drv) and all(os.path.getmtime(drv) >= os.path.getmtime(s) for s in srcs):
        return drv
    env = dict(os.environ, CARGO_NET_OFFLINE="true")
    r = subprocess.run(["cargo", "build", "--release", "--offline"], cwd=os.path.join(VERIF, "driver"),
                       env=env, stdout=subprocess.PIPE, stderr=subprocess.STDOUT, text=True)
    if r.returncode != 0 or not os.path.exists(drv):
        raise MachineryError("driver build failed:\n" + r.stdout[-3000:])
    return drv


def ensure_facts(repo=REPO, target=None, verbose=True):
    """Return the directory with fresh facts for the current tree (extracting if needed)."""
    os.makedirs(CACHE, exist_ok=True)
    th = tree_hash(repo)
    tag = "" if repo == "/repo" else "-" + hashlib.sha256(repo.encode()).hexdigest()[:8]
    fdir = os.path.join(CACHE, "facts", th + tag)
    if os.path.exists(os.path.join(fdir, "OK")):
        return fdir, False          # fast path: no lock needed
    lock = open(os.path.join(CACHE, "extract.lock"), "w")
    fcntl.flock(lock, fcntl.LOCK_EX)
    try:
        if os.path.exists(os.path.join(fdir, "OK")):
            return fdir, False
        ensure_driver()
        if os.path.isdir(fdir):
            for f in glob.glob(os.path.join(fdir, "*")):
                os.remove(f)
        os.makedirs(fdir, exist_ok=True)
        t0 = time.time()
        cmd = [os.path.join(VERIF, "extract.sh"), fdir, repo]
        if target:
            cmd.append(target)
        r = subprocess.run(cmd, stdout=subprocess.PIPE, stderr=subprocess.STDOUT, text=True)
        if r.returncode != 0:
            raise MachineryError("workspace does not compile / driver failed:\n" + r.stdout[-4000:])
        found = {}
        for f in glob.glob(os.path.join(fdir, "*.jsonl")):
            base = os.path.basename(f).split(".")
            found.setdefault(base[0], []).append(base[1])
        for c, kind in EXPECTED_CRATES.items():
            if kind not in found.get(c, []):
                raise MachineryError("no fact file written for crate %s (%s); found %r" % (c, kind, found))
        with open(os.path.join(fdir, "OK"), "w") as fh:
            fh.write("%s extracted in %.1fs\n" % (th, time.time() - t0))
        # prune old fact dirs: keep the 4 newest of /repo itself (no tag) and the 12 newest of scratch copies
        alld = sorted(glob.glob(os.path.join(CACHE, "facts", "*")), key=os.path.getmtime)
        own = [d for d in alld if "-" not in os.path.basename(d)]
        alt = [d for d in alld if "-" in os.path.basename(d)]
        for d in own[:-4] + alt[:-12]:
            if d != fdir:
                subprocess.run(["rm", "-rf", d])
        if verbose:
            print("[facts] extracted %s in %.1fs" % (th, time.time() - t0), file=sys.stderr)
        return fdir, True
    finally:
        fcntl.flock(lock, fcntl.LOCK_UN)
        lock.close()


_GEN = re.compile(r"::<[^<>]*>")


def strip_generics(s):
    """`a::B::<T>::f` -> `a::B::f`; nested generic args handled iteratively.
    Leading `<X as Y>::f` qualified forms are kept."""
    prev = None
    while prev != s:
        prev = s
        s = _GEN.sub("", s)
    return s


_TYGEN = re.compile(r"<[^<>]*>")


def strip_all_generics(s):
    """Remove every <...> group that is a generic-argument list (not a leading qualified-self)."""
    prev = None
    while prev != s:
        prev = s
        s = re.sub(r"(?<=[A-Za-z0-9_\]])<[^<>]*>", "", s)
    return s


class Body:
    __slots__ = ("d", "path", "npath", "crate", "blocks", "locals", "file", "line", "_succ", "_pred", "kind",
                 "parent", "root")

    def __init__(self, d, crate):
        self.d = d
        self.crate = crate
        self.path = d["path"]
        self.npath = strip_generics(d["path"])
        self.blocks = d["blocks"]
        self.locals = d["locals"]
        self.file = d["file"]
        self.line = d["line"]
        self.kind = d.get("kind")
        self.parent = d.get("parent")
        self.root = d.get("root")
        self._succ = None
        self._pred = None

    def __repr__(self):
        return "<Body %s>" % self.path

    @property
    def where(self):
        return "%s:%d" % (self.file, self.line)

    def loc(self, bb):
        return "%s:%d" % (self.file, self.blocks[bb]["term"].get("ln", self.line))

    def local_name(self, i):
        return self.locals[i].get("n")

    def local_ty(self, i):
        return self.locals[i]["ty"]


class Facts:
    def __init__(self, fdir, crates=None):
        self.dir = fdir
        self.bodies = {}      # path -> Body   (first wins; duplicates recorded)
        self.by_npath = {}    # generic-stripped path -> [Body]
        self.adts = {}
        self.impls = []
        self.fns = {}
        self.hir = {}
        self.crates = {}
        self.children = {}    # parent path -> [Body] (closures/coroutines)
        self.promoted = {}    # "<owner path>::promoted[n]" -> Body of the promoted constant
        seen_crates = set()
        for f in sorted(glob.glob(os.path.join(fdir, "*.jsonl"))):
            base = os.path.basename(f).split(".")
            cname, ckind = base[0], base[1]
            if crates is not None and cname not in crates:
                continue
            if (cname, ckind) in seen_crates:
                continue  # agdb_derive is built twice (host deps); identical
            seen_crates.add((cname, ckind))
            with open(f) as fh:
                for line in fh:
                    r = json.loads(line)
                    t = r["t"]
                    if t == "body":
                        b = Body(r, cname)
                        if b.path not in self.bodies:
                            self.bodies[b.path] = b
                        self.by_npath.setdefault(b.npath, []).append(b)
                        if b.parent:
                            self.children.setdefault(b.parent, []).append(b)
                    elif t == "promoted":
                        # promoted constant body `<owner>::promoted[n]` (e.g. `&Enum::Variant`, `&[]`)
                        self.promoted[r["path"]] = Body(r, cname)
                    elif t == "adt":
                        self.adts[r["path"]] = r
                    elif t == "impl":
                        r["crate"] = cname
                        self.impls.append(r)
                    elif t == "fn":
                        r["crate"] = cname
                        self.fns[r["path"]] = r
                    elif t == "hir":
                        self.hir[r["path"]] = r
                    elif t == "crate":
                        self.crates[cname] = r
        self.nbodies = len(self.bodies)

    # ---- lookup helpers -------------------------------------------------
    def body(self, path):
        """Exact path or generic-stripped path. Returns Body or None."""
        b = self.bodies.get(path)
        if b:
            return b
        l = self.by_npath.get(strip_generics(path))
        if l:
            return l[0]
        return None

    def find(self, regex, crate=None):
        rx = re.compile(regex)
        return [b for p, b in self.bodies.items() if rx.search(b.npath) and (crate is None or b.crate == crate)]

    def closures_of(self, path, recursive=True):
        out = []
        for c in self.children.get(path, []):
            out.append(c)
            if recursive:
                out.extend(self.closures_of(c.path, True))
        # closures of helpers that the inlined view folded into this function (lib/inline.py)
        for hp in getattr(self, "_inlined_from", {}).get(path, []):
            out.extend(self.closures_of(hp, recursive))
        return out

    def matches(self, path):
        h = self.hir.get(path)
        if not h:
            b = self.body(path)
            if b:
                h = self.hir.get(b.path)
                path = b.path
        out = list(h["matches"]) if h else []
        for hp in getattr(self, "_inlined_from", {}).get(path, []):
            hh = self.hir.get(hp)
            if hh:
                out.extend(hh["matches"])
        return out


def load_dir(fdir, crates=None):
    return Facts(fdir, crates)


def load(repo=REPO):
    fdir, fresh = ensure_facts(repo)
    return load_dir(fdir)
