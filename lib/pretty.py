from . import cfg


def op_s(o):
    if "cp" in o:
        return cfg.place_str(o["cp"])
    if "mv" in o:
        return "move " + cfg.place_str(o["mv"])
    if "k" in o:
        k = o["k"]
        if "fn" in k:
            return "fn:" + k.get("res", k["fn"])
        return "const " + str(k.get("c"))[:60]
    return str(o)[:60]


def rv_s(r):
    k = r["k"]
    if k == "use":
        return op_s(r["o"])
    if k == "ref":
        return ("&mut " if r["mut"] else "&") + cfg.place_str(r["p"])
    if k == "bin":
        return "%s(%s, %s)" % (r["op"], op_s(r["a"]), op_s(r["b"]))
    if k == "un":
        return "%s(%s)" % (r["op"], op_s(r["a"]))
    if k == "cast":
        return "%s as %s" % (op_s(r["o"]), r["ty"][-40:])
    if k == "discr":
        return "discr(%s)" % cfg.place_str(r["p"])
    if k == "agg":
        w = r.get("what")
        if w == "adt":
            w = r["adt"].split("::")[-1] + "::" + r["variant"]
        elif w in ("closure", "coroutine"):
            w = w + ":" + r["def"]
        return "%s{%s}" % (w, ", ".join(op_s(o) for o in r["ops"]))
    return str(r)[:80]


def show(body, cleanup=False, calls_only=False):
    out = ["== %s  (%s:%d) argc=%d" % (body.path, body.file, body.line, body.d["argc"])]
    names = ["_%d:%s" % (i, l["n"]) for i, l in enumerate(body.locals) if l.get("n")]
    out.append("   names: " + " ".join(names))
    for i, b in enumerate(body.blocks):
        if b.get("cleanup") and not cleanup:
            continue
        t = b["term"]
        if calls_only and t["k"] not in ("call", "switch", "return", "yield"):
            if not b["s"]:
                continue
        lines = []
        if not calls_only:
            for s in b["s"]:
                if "l" in s:
                    lines.append("%s = %s" % (cfg.place_str(s["l"]), rv_s(s["r"])))
        k = t["k"]
        x = (" {" + t["x"] + "}") if t.get("x") else ""
        if k == "call":
            ts = "%s = %s(%s) -> bb%s%s" % (cfg.place_str(t["d"]), cfg.callee(t) or op_s(t["f"]),
                                            ", ".join(op_s(a) for a in t["a"]), t["t"], x)
        elif k == "switch":
            ts = "switch %s %s else bb%s%s" % (op_s(t["d"]), t["ts"], t["else"], x)
        elif k == "assert":
            ts = "assert[%s] -> bb%s" % (t["ak"], t["t"])
        elif k == "drop":
            ts = "drop %s -> bb%s" % (cfg.place_str(t["p"]), t["t"])
        elif k in ("goto", "falseunwind"):
            ts = "%s bb%s" % (k, t["t"])
        elif k == "falseedge":
            ts = "falseedge bb%s (imag bb%s)" % (t["t"], t["imag"])
        elif k == "yield":
            ts = "yield -> bb%s" % t["t"]
        else:
            ts = k
        out.append("bb%d [L%s]%s: %s" % (i, t.get("ln"), " C" if b.get("cleanup") else "", " ; ".join(lines)))
        out.append("      T: " + ts)
    return "\n".join(out)
