#!/usr/bin/env python3
"""Replay every confirmed seeded change (seeded/*/meta.json `expect`) and every selftest/*.patch against the current rules:
one scratch worktree + one fact extraction per patch, then the rules of every property that is expected to report it.
Prints MISSED lines; exit 1 if any.   usage: replay_seeded.py [name-substring ...]"""
import glob, importlib, json, os, subprocess, sys, tempfile
VERIF = os.path.dirname(os.path.dirname(os.path.abspath(__file__)))
sys.path.insert(0, VERIF)
from lib import facts as F
from lib.report import Ctx

jobs = []
for mp in sorted(glob.glob(os.path.join(VERIF, "seeded", "*", "meta.json"))):
    m = json.load(open(mp))
    if not (m.get("confirmed") or {}).get("valid_seeded_change", True) or not m.get("expect"):
        continue
    jobs.append((os.path.basename(os.path.dirname(mp)), os.path.join(os.path.dirname(mp), "patch.diff"), m["expect"]))
for p in sorted(glob.glob(os.path.join(VERIF, "selftest", "*.patch"))):
    meta = json.load(open(p[:-6] + ".json")) if os.path.exists(p[:-6] + ".json") else {}
    pid = os.path.basename(p).split("_")[0]
    jobs.append((os.path.basename(p), p, {pid: meta.get("expect_key_contains", "")}))
sel = sys.argv[1:]
if sel:
    jobs = [j for j in jobs if any(s in j[0] for s in sel)]
missed = 0
for name, patch, expect in jobs:
    d = tempfile.mkdtemp(prefix="rs_", dir="/tmp")
    os.rmdir(d)
    subprocess.run(["git", "-C", "/repo", "worktree", "add", "--detach", d, "HEAD"], stdout=subprocess.DEVNULL, stderr=subprocess.DEVNULL)
    try:
        subprocess.run(["cp", "/repo/Cargo.lock", d + "/"])
        r = subprocess.run(["git", "-C", d, "apply", patch], stderr=subprocess.PIPE, text=True)
        if r.returncode != 0:
            r = subprocess.run("patch -p1 --no-backup-if-mismatch -f < %s" % patch, shell=True, cwd=d, stdout=subprocess.PIPE, stderr=subprocess.STDOUT, text=True)
            if r.returncode != 0:
                print("SKIP %s: patch does not apply" % name, flush=True)
                continue
        try:
            fdir, _ = F.ensure_facts(d, verbose=False)
        except F.MachineryError as e:
            print("SKIP %s: does not compile" % name, flush=True)
            continue
        for pid, want in sorted(expect.items()):
            mod = importlib.import_module("rules." + pid)
            fa = F.Facts(fdir, getattr(mod, "CRATES", None))
            c = Ctx(pid, "quick", fa)
            c.repo = d
            try:
                mod.run(c)
            except Exception as e:       # noqa
                print("CRASH %s %s: %r" % (name, pid, e), flush=True)
                missed += 1
                continue
            bad = [o for o in c.obligations if not o["ok"]]
            wants = [w for w in want.split("||") if w] or [""]
            hit = [o for o in bad if any(w in o["key"] or w in o["instance"] for w in wants)]
            print("%s %s %s -> %s" % ("ok    " if hit else "MISSED", name, pid, hit[0]["instance"][:90] if hit else [o["instance"] for o in bad][:3]), flush=True)
            if not hit:
                missed += 1
    finally:
        subprocess.run(["git", "-C", "/repo", "worktree", "remove", "--force", d], stdout=subprocess.DEVNULL, stderr=subprocess.DEVNULL)
print("missed: %d of %d patches" % (missed, len(jobs)))
sys.exit(1 if missed else 0)
