#!/bin/bash
# usage: try_neutral.sh <patch.diff>  -- run EVERY accepted check against a scratch worktree with the (behaviour-preserving)
# patch applied; prints only the checks that report something (a report here is a false alarm of the machinery)
P=$1
D=$(mktemp -d /tmp/neu_XXXX); rmdir $D
git -C /repo worktree add --detach $D HEAD >/dev/null 2>&1 || exit 2
cp /repo/Cargo.lock $D/
if ! git -C $D apply "$P" 2>/tmp/neu_apply.err; then echo "PATCH DOES NOT APPLY: $(head -2 /tmp/neu_apply.err)"; git -C /repo worktree remove --force $D; exit 3; fi
bad=0
for c in $(cat /verif/rules/ACCEPTED.txt); do
  out=$(/verif/check $c --repo $D 2>&1); rc=$?
  if [ $rc -ne 0 ]; then bad=1; echo "--- $c rc=$rc"; echo "$out" | grep -v "^KNOWN-FINDING" | grep -v "^VIOLATION" | grep -v "^\[facts\]" | cut -c1-500 | tail -8; fi
done
[ $bad = 0 ] && echo "all quiet on $P"
git -C /repo worktree remove --force $D
