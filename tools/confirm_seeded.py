#!/usr/bin/env python3
"""Confirm a seeded change myself: demo passes on clean HEAD, fails with the patch, the crate's existing tests
still pass with the patch.  usage: confirm_seeded.py <seeded dir> [crate]
Works in the scratch worktree /tmp/confirm_wt (created on demand, target dir /tmp/confirm_target); records the
outcome in <seeded dir>/meta.json under "confirmed"."""
import json
import os
import re
import subprocess
import sys

d = os.path.abspath(sys.argv[1])
crate = sys.argv[2] if len(sys.argv) > 2 else "agdb"
WT = "/tmp/confirm_wt"
ENV = dict(os.environ, CARGO_NET_OFFLINE="true", CARGO_TARGET_DIR="/tmp/confirm_target")


def sh(cmd, cwd=WT, timeout=3600):
    r = subprocess.run(cmd, shell=True, cwd=cwd, env=ENV, stdout=subprocess.PIPE, stderr=subprocess.STDOUT, text=True, timeout=timeout)
    return r.returncode, r.stdout


if not os.path.isdir(WT):
    sh("git -C /repo worktree add --detach %s HEAD" % WT, cwd="/")
sh("git checkout -q --detach $(git -C /repo rev-parse HEAD) && git reset -q --hard && git clean -fdq -e Cargo.lock")
sh("cp /repo/Cargo.lock %s/" % WT, cwd="/")
demo = [f for f in os.listdir(d) if f.startswith("demo")][0]
src = open(os.path.join(d, demo)).read()
head = "\n".join(src.split("\n")[:40])
mp0 = os.path.join(d, "meta.json")
meta0 = json.load(open(mp0)) if os.path.exists(mp0) else {}
m_place = m_append = None
for ln in head.split("\n"):
    low = ln.lower()
    mm = re.search(r"`?([\w/\.\-]+/[\w\.\-]+\.rs)`?", ln)
    if not mm:
        continue
    if "append" in low and m_append is None and m_place is None:
        m_append = mm
        break
    if ("place" in low or "copy" in low) and m_place is None:
        m_place = mm
        break
if meta0.get("demo_path"):
    class _M:       # explicit placement from meta.json wins
        def __init__(self, p): self.p = p
        def group(self, i): return self.p
        def start(self): return 0
    if meta0.get("demo_mode") in ("append", "paste-in-mod-tests"):
        m_append, m_place = _M(meta0["demo_path"]), None
    else:
        m_place, m_append = _M(meta0["demo_path"]), None
m_run = re.search(r"((?:CARGO_NET_OFFLINE=true )?cargo test[^\n`]*)", meta0.get("demo_cmd") or head)
if not m_run or not (m_place or m_append):
    print("cannot parse demo header of", d)
    sys.exit(2)
cmd = m_run.group(1).strip()
undo = None
if m_append and (not m_place or m_append.start() < m_place.start()):
    target = os.path.join(WT, m_append.group(1))
    orig = open(target).read()
    placed = ("append", target, orig)
else:
    target = os.path.join(WT, m_place.group(1))
    placed = ("file", target, None)


def place():
    if placed[0] == "append" and meta0.get("demo_mode") == "paste-in-mod-tests":
        txt = open(placed[1]).read().rstrip()
        assert txt.endswith("}")
        open(placed[1], "w").write(txt[:-1] + "\n" + src + "\n}\n")     # inside the trailing `mod tests { .. }`
    elif placed[0] == "append":
        open(placed[1], "a").write("\n" + src)
    else:
        os.makedirs(os.path.dirname(placed[1]), exist_ok=True)
        open(placed[1], "w").write(src)


def unplace():
    if placed[0] == "append":
        sh("git checkout -q -- %s" % os.path.relpath(placed[1], WT))
    else:
        os.remove(placed[1])


res = {}
place()
rc, out = sh(cmd)
res["demo_on_clean_head"] = "pass" if rc == 0 else "FAIL"
unplace()
rc, out = sh("git apply %s" % os.path.join(d, "patch.diff"))
if rc != 0:
    rc, out = sh("patch -p1 --no-backup-if-mismatch -f < %s" % os.path.join(d, "patch.diff"))
res["patch_applies"] = rc == 0
place()
rc, out = sh(cmd)
res["demo_with_change"] = "fails (as required)" if rc != 0 else "PASSES (change does not break the demo)"
tail = [l for l in out.split("\n") if "panicked" in l or "assertion" in l or "left:" in l or "right:" in l][:4]
res["demo_failure_excerpt"] = tail
unplace()
if placed[0] == "append":
    sh("git reset -q --hard")                             # checkout of the appended file may have reverted a hunk
    sh("git apply %s" % os.path.join(d, "patch.diff"))
existing = os.environ.get("EXISTING_CMD") or meta0.get("existing_cmd") or ("cargo test -p %s --offline" % crate)
rc, out = sh("%s 2>&1 | grep -E '^test result|FAILED|error(\\[|:)' " % existing)
res["existing_tests_cmd"] = existing
passed = sum(int(x) for x in re.findall(r"(\d+) passed", out))
failed = sum(int(x) for x in re.findall(r"(\d+) failed", out))
res["existing_tests_with_change"] = "%d passed, %d failed%s" % (passed, failed, " (compile error)" if "error" in out and passed == 0 else "")
res["head"] = subprocess.run("git -C /repo rev-parse --short HEAD", shell=True, stdout=subprocess.PIPE, text=True).stdout.strip()
ok = (res["demo_on_clean_head"] == "pass" and res["patch_applies"] and res["demo_with_change"].startswith("fails") and failed == 0 and passed > 0)
res["valid_seeded_change"] = ok
mp = os.path.join(d, "meta.json")
meta = json.load(open(mp)) if os.path.exists(mp) else {}
meta["confirmed"] = res
json.dump(meta, open(mp, "w"), indent=1)
print(os.path.basename(d), json.dumps(res)[:600])
sh("git reset -q --hard && git clean -fdq -e Cargo.lock")
