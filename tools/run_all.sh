#!/bin/bash
# run every accepted check (quick tier) and print one line per property
cd /verif
for p in $(cat rules/ACCEPTED.txt); do
  out=$(./check $p "$@" 2>&1); rc=$?
  echo "rc=$rc $(echo "$out" | tail -1)"
done
