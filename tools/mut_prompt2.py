#!/usr/bin/env python3
"""Second-round prompt for property <id>: same brief as mut_prompt.py plus the list of places earlier seeded changes
already used (so that the new changes differ).  Writes /tmp/mutprompt2_<id>.txt; deliverables go to /tmp/mut_out2/<id>/."""
import glob, json, subprocess, sys
pid = sys.argv[1]
crate = sys.argv[2] if len(sys.argv) > 2 else "agdb"
txt = subprocess.run([sys.executable, "/verif/tools/mut_prompt.py", pid, crate], stdout=subprocess.PIPE, text=True).stdout
txt = txt.replace("/tmp/mut_%s" % pid, "/tmp/mut2_%s" % pid).replace("/tmp/mut_out/", "/tmp/mut_out2/")
used = []
for m in sorted(glob.glob("/verif/seeded/*/meta.json")):
    j = json.load(open(m))
    used.append("    - " + j.get("summary", "").strip())
avoid = ("\nEarlier rounds of this study already produced the changes listed below (for this and for other properties). "
         "Choose DIFFERENT places and mechanisms; do not repeat or vary any of them:\n" + "\n".join(used) + "\n")
marker = "\nSet-up:"
txt = txt.replace(marker, avoid + marker, 1)
open("/tmp/mutprompt2_%s.txt" % pid, "w").write(txt)
print("/tmp/mutprompt2_%s.txt" % pid, len(txt))
