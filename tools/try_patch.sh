#!/bin/bash
# usage: try_patch.sh <patch.diff> <Cxx> [Cyy ...]   -- run checks against a scratch worktree with the patch applied
P=$1; shift
D=$(mktemp -d /tmp/try_XXXX); rmdir $D
git -C /repo worktree add --detach $D HEAD >/dev/null 2>&1 || exit 2
cp /repo/Cargo.lock $D/
if ! git -C $D apply "$P" 2>/tmp/try_apply.err; then
  if ! (cd $D && patch -p1 --no-backup-if-mismatch -f < "$P" >/dev/null 2>&1); then echo "PATCH DOES NOT APPLY: $(head -2 /tmp/try_apply.err)"; git -C /repo worktree remove --force $D; exit 3; fi
fi
for c in "$@"; do
  echo "--- $c on $(basename $P) ($(dirname $P))"
  /verif/check $c --repo $D 2>&1 | grep -v "^KNOWN-FINDING" | grep -v "^VIOLATION" | cut -c1-400 | tail -6
done
git -C /repo worktree remove --force $D
