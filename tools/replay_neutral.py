#!/usr/bin/env python3
"""Run EVERY rule module against every behaviour-preserving patch in neutral/ (one scratch worktree and one fact
extraction per patch, facts loaded once per crate set) and report every obligation that fails on the patched tree but
not on /repo itself: each such line is a false alarm of the machinery.
usage: replay_neutral.py [--write-quiet] [NN ...]     (--write-quiet stores the quiet property list in meta.json)"""
import glob
import importlib
import json
import os
import subprocess
import sys
import tempfile
VERIF = os.path.dirname(os.path.dirname(os.path.abspath(__file__)))
sys.path.insert(0, VERIF)
from lib import facts as F          # noqa: E402
from lib.report import Ctx          # noqa: E402

args = [a for a in sys.argv[1:] if not a.startswith("--")]
write_quiet = "--write-quiet" in sys.argv
pids = open(os.path.join(VERIF, "rules", "ACCEPTED.txt")).read().split()
mods = {p: importlib.import_module("rules." + p) for p in pids}
props = {json.loads(l)["id"]: json.loads(l) for l in open(os.path.join(VERIF, "properties.jsonl"))}


def run_all(fdir, repo):
    cache = {}
    out = {}
    for p in pids:
        crates = getattr(mods[p], "CRATES", None)
        fa = cache.get(crates)
        if fa is None:
            fa = cache[crates] = F.Facts(fdir, crates)
        c = Ctx(p, "quick", fa)
        c.repo = repo
        try:
            mods[p].run(c)
            out[p] = {o["key"]: o for o in c.obligations if not o["ok"]}
        except Exception as e:       # noqa
            out[p] = {"CRASH": {"key": "CRASH", "detail": repr(e), "instance": "crash"}}
    return out


base_dir, _ = F.ensure_facts("/repo", verbose=False)
base = run_all(base_dir, "/repo")
bad_total = 0
for mp in sorted(glob.glob(os.path.join(VERIF, "neutral", "*", "meta.json"))):
    nn = os.path.basename(os.path.dirname(mp))
    if args and nn not in args:
        continue
    patch = os.path.join(os.path.dirname(mp), "patch.diff")
    d = tempfile.mkdtemp(prefix="rn_", dir="/tmp")
    os.rmdir(d)
    subprocess.run(["git", "-C", "/repo", "worktree", "add", "--detach", d, "HEAD"], stdout=subprocess.DEVNULL, stderr=subprocess.DEVNULL)
    try:
        subprocess.run(["cp", "/repo/Cargo.lock", d + "/"])
        if subprocess.run(["git", "-C", d, "apply", patch], stderr=subprocess.DEVNULL).returncode != 0:
            print("SKIP %s: patch does not apply" % nn, flush=True)
            continue
        try:
            fdir, _ = F.ensure_facts(d, verbose=False)
        except F.MachineryError:
            print("SKIP %s: does not compile" % nn, flush=True)
            continue
        res = run_all(fdir, d)
        noisy = {}
        for p in pids:
            new = [o for k, o in res[p].items() if k not in base[p]]
            if new:
                noisy[p] = new
        meta = json.load(open(mp))
        touched = [l[6:].strip() for l in open(patch) if l.startswith("+++ b/")]
        if noisy:
            bad_total += 1
            for p, new in sorted(noisy.items()):
                for o in new[:4]:
                    print("NOISE %s %s %s :: %s" % (nn, p, o["instance"][:80], (o.get("detail") or "")[:160]), flush=True)
        else:
            print("quiet %s (%s)" % (nn, ", ".join(t.split("/")[-1] for t in touched)), flush=True)
        if write_quiet:
            rel = sorted(p for p in pids if p not in noisy and any(
                t in props[p]["anchors"]["files"] for t in touched))
            meta["quiet"] = rel
            meta["noisy"] = sorted(noisy)
            json.dump(meta, open(mp, "w"), indent=1)
    finally:
        subprocess.run(["git", "-C", "/repo", "worktree", "remove", "--force", d], stdout=subprocess.DEVNULL, stderr=subprocess.DEVNULL)
print("patches with noise: %d" % bad_total)
sys.exit(1 if bad_total else 0)
