#!/usr/bin/env python3
"""Regenerate /verif/MANIFEST.json from the rule modules present under rules/."""
import importlib
import json
import os
import sys

HERE = os.path.dirname(os.path.dirname(os.path.abspath(__file__)))
sys.path.insert(0, HERE)

NOT_APPLICABLE = {
    "C30": "liveness under fair schedules and timers: no clause of the statement is a shape property of the code; "
           "timer arithmetic and message orders are runtime quantities no sound static rule in reach bounds "
           "(DESIGN.md §4)",
}
PENDING_REASON = "no static rule built yet in this revision of /verif (planned in DESIGN.md §3); not claimed"

TECHNIQUE = {
    "default": "custom static analysis over rustc MIR/HIR facts (rustc_private driver): CFG dominance/cut-set, "
               "pairing, who-may-call and table-agreement rules",
}

props = [json.loads(l) for l in open(os.path.join(HERE, "properties.jsonl"))]
checks = []
na = []
for p in props:
    pid = p["id"]
    if pid in NOT_APPLICABLE:
        na.append({"property_id": pid, "reason": NOT_APPLICABLE[pid]})
        continue
    if not os.path.exists(os.path.join(HERE, "rules", pid + ".py")):
        na.append({"property_id": pid, "reason": PENDING_REASON})
        continue
    mod = importlib.import_module("rules." + pid)
    accepted = open(os.path.join(HERE, "rules", "ACCEPTED.txt")).read().split()
    if getattr(mod, "READY", True) is False or pid not in accepted:
        na.append({"property_id": pid, "reason": PENDING_REASON + " (rule module under triage)"})
        continue
    checks.append({
        "property_id": pid,
        "quick_cmd": "./check %s --tier quick" % pid,
        "thorough_cmd": "./check %s --tier thorough" % pid,
        "evidence_file": "/verif/evidence/%s.json" % pid,
        "replay_cmd_template": "./check %s --replay {path}" % pid,
        "engine": "agdb-facts+rules",
        "level_claimed": {
            "category": "other",
            "text": "Static analysis deciding structural necessary conditions of the property on every CFG path / "
                    "table row of /repo's current source: " + "; ".join(mod.DECIDED) +
                    ". NOT decided (stated plainly): " + "; ".join(mod.UNDECIDED) + ".",
            "design_ref": "DESIGN.md §3 " + pid,
        },
        "level_note": "Trusted: rustc nightly MIR (pre-borrowck, mir-opt-level 0) and HIR of the workspace-unified "
                      "feature configuration; the fact extractor in driver/; lib/cfg.py; the frozen tables in rules/%s.py "
                      "(each entry confirmed by reading the code). A pass means the listed structural rules hold, not "
                      "that the behaviour was observed." % pid,
        "technique": getattr(mod, "TECHNIQUE", TECHNIQUE["default"]),
    })

manifest = {
    "version": 1,
    "setup_cmd": "./setup.sh",
    "hooks": {
        "guard": "agdb_verif",
        "enable": "none needed: the checks read compiler facts of the unmodified sources (no hooks in /repo); "
                  "cfg flag `agdb_verif` is reserved and unused",
        "baseline_off_cmd": "cd /repo && cargo nextest run --workspace --no-fail-fast --tool-config-file "
                            "pb:/w/lib/nextest.toml --profile pb --test-threads 8 --offline",
        "source_commits": [],
        "add_only": True,
    },
    "engines": [
        {"name": "agdb-facts", "path": "driver/", "serves_properties": [c["property_id"] for c in checks],
         "kind_free_text": "rustc_private driver (RUSTC_WORKSPACE_WRAPPER under cargo +nightly check) dumping "
                           "pre-borrowck MIR CFGs with resolved callees, HIR match tables, ADT/impl/fn tables"},
        {"name": "rules", "path": "rules/ lib/", "serves_properties": [c["property_id"] for c in checks],
         "kind_free_text": "Python rule evaluator: dominators, cut-set reachability, pairing, who-may-call, "
                           "table agreement, loop witnesses; one module per property"},
        {"name": "witness", "path": "witness/", "serves_properties": ["C23", "C24"],
         "kind_free_text": "compile_fail doc-test witnesses with compiling twins (cargo +nightly test --doc)"},
        {"name": "selftest", "path": "selftest/", "serves_properties": [c["property_id"] for c in checks],
         "kind_free_text": "thorough tier: seeded single-instance breakages applied to a scratch copy; the rule must "
                           "fire and name the instance"},
    ],
    "checks": checks,
    "not_applicable": na,
    "notes": "Technique family: static analysis only. Known genuine defects that are recorded rather than repaired are "
             "listed in /verif/known_findings.json (exact keys, no line numbers); repaired ones are `fix:` commits in "
             "/repo and `fixed` entries in the same file. Exit status 2 = machinery failure (never a VIOLATION line).",
}
with open(os.path.join(HERE, "MANIFEST.json"), "w") as fh:
    json.dump(manifest, fh, indent=1)
print("claimed:", [c["property_id"] for c in checks])
print("n/a:", [x["property_id"] for x in na])
