#!/usr/bin/env python3
"""Print the prompt for an independent seeded-mutation sub-agent for property <id> (only the property text is given)."""
import json, sys
pid = sys.argv[1]
crate = sys.argv[2] if len(sys.argv) > 2 else "agdb"
props = {json.loads(l)["id"]: json.loads(l) for l in open("/verif/properties.jsonl")}
p = props[pid]
print(f"""You are a software engineer asked to produce realistic BREAKING CHANGES (seeded defects) for a robustness study of the Rust project agnesoft/agdb (an embedded persistent graph database with a write-ahead-logged file storage, object queries, and an HTTP server with a hand-rolled Raft cluster mode). The repository is at /repo (a git repository; never modify /repo's working tree and never commit there). Work offline: there is no network; always pass `--offline` to cargo and set CARGO_NET_OFFLINE=true. Do NOT read or use anything under /verif (it is off limits for this task).

The property that your changes must break:

  Title: {p['title']}
  Statement: {p['statement']}
  It must hold for: {p['quantifier']['text']}

Task: produce TWO independent changes, A and B, at different places/mechanisms of the code base (not two variations of one edit). Each change, applied alone to the current HEAD of /repo:
  1. still compiles (whole workspace: `cargo check --workspace --offline`),
  2. still passes the existing test suite of the affected crate(s) unedited — at minimum run `cargo test -p {crate} --offline` and report the pass/fail counts (if your change touches another crate, run that crate's tests too; tests under agdb_server named `cluster_test` are known to be port-collision flaky when run in parallel: run them with `--test-threads 1` if you need them),
  3. breaks the property above in a way that needs something SPECIFIC to manifest: a particular interleaving, a crash or fault at a particular point, a multi-step sequence of operations, an unusual input, or two cooperating sites that each look fine alone — NOT something ordinary use (or the existing tests) would expose at once. Think like a subtle regression a code reviewer could miss: e.g. a reordered pair of operations, a guard weakened on one path only, an off-by-one on a boundary only reached after a specific history, an error path that skips a step, a sibling implementation that diverges.
  4. comes with a demonstration: a test (or small program) that FAILS with the change and PASSES without it. Prefer tests using the public API placed under the crate's `tests/` directory; an in-crate unit test is acceptable when internals are needed. Confirm both directions yourself (run the demo on clean HEAD: passes; with the change: fails) and quote the failing output.

Set-up: create your own scratch worktree `git -C /repo worktree add --detach /tmp/mut_{pid} HEAD`, then `cp /repo/Cargo.lock /tmp/mut_{pid}/` (the lock file is git-ignored), and use `CARGO_TARGET_DIR=/tmp/mut_{pid}_target`. Work only there.

Deliverables — write them to /tmp/mut_out/{pid}/A/ and /tmp/mut_out/{pid}/B/ (create the directories):
  - patch.diff : `git diff` of the change against HEAD (non-test source only; must apply to a clean HEAD with `git apply`)
  - demo.rs (or another suitable name): the demonstration, with a header comment saying exactly where to place it and the exact command to run it
  - meta.json : {{"property": "{pid}", "summary": "<one sentence: what was changed>", "needs": "<what specific condition is needed for the defect to manifest>", "demo_path": "<repo-relative path where demo.rs must be placed, e.g. agdb/tests/my_demo_test.rs (or the file to append it to)>", "demo_mode": "file" or "append", "demo_cmd": "<exact cargo test command, run from the repository root>", "ran": ["<commands you ran and their outcome: check, existing tests with counts, demo on HEAD, demo with change>"]}}
When finished remove the worktree and build output: `git -C /repo worktree remove --force /tmp/mut_{pid}; rm -rf /tmp/mut_{pid}_target`.

Final answer: for A and for B: the file/function changed, why the property breaks, what is needed to trigger it, and the test results (existing tests pass count, demo fails/passes). Be concise.""")
